
(** val negb : bool -> bool **)

let negb = function
| true -> false
| false -> true

type nat =
| O
| S of nat

(** val fst : ('a1 * 'a2) -> 'a1 **)

let fst = function
| (x, _) -> x

(** val snd : ('a1 * 'a2) -> 'a2 **)

let snd = function
| (_, y) -> y

(** val length : 'a1 list -> nat **)

let rec length = function
| [] -> O
| _ :: l' -> S (length l')

(** val app : 'a1 list -> 'a1 list -> 'a1 list **)

let rec app l m =
  match l with
  | [] -> m
  | a :: l1 -> a :: (app l1 m)

type comparison =
| Eq
| Lt
| Gt

(** val compOpp : comparison -> comparison **)

let compOpp = function
| Eq -> Eq
| Lt -> Gt
| Gt -> Lt

type uint =
| Nil
| D0 of uint
| D1 of uint
| D2 of uint
| D3 of uint
| D4 of uint
| D5 of uint
| D6 of uint
| D7 of uint
| D8 of uint
| D9 of uint

(** val revapp : uint -> uint -> uint **)

let rec revapp d d' =
  match d with
  | Nil -> d'
  | D0 d0 -> revapp d0 (D0 d')
  | D1 d0 -> revapp d0 (D1 d')
  | D2 d0 -> revapp d0 (D2 d')
  | D3 d0 -> revapp d0 (D3 d')
  | D4 d0 -> revapp d0 (D4 d')
  | D5 d0 -> revapp d0 (D5 d')
  | D6 d0 -> revapp d0 (D6 d')
  | D7 d0 -> revapp d0 (D7 d')
  | D8 d0 -> revapp d0 (D8 d')
  | D9 d0 -> revapp d0 (D9 d')

(** val rev : uint -> uint **)

let rev d =
  revapp d Nil

module Little =
 struct
  (** val double : uint -> uint **)

  let rec double = function
  | Nil -> Nil
  | D0 d0 -> D0 (double d0)
  | D1 d0 -> D2 (double d0)
  | D2 d0 -> D4 (double d0)
  | D3 d0 -> D6 (double d0)
  | D4 d0 -> D8 (double d0)
  | D5 d0 -> D0 (succ_double d0)
  | D6 d0 -> D2 (succ_double d0)
  | D7 d0 -> D4 (succ_double d0)
  | D8 d0 -> D6 (succ_double d0)
  | D9 d0 -> D8 (succ_double d0)

  (** val succ_double : uint -> uint **)

  and succ_double = function
  | Nil -> D1 Nil
  | D0 d0 -> D1 (double d0)
  | D1 d0 -> D3 (double d0)
  | D2 d0 -> D5 (double d0)
  | D3 d0 -> D7 (double d0)
  | D4 d0 -> D9 (double d0)
  | D5 d0 -> D1 (succ_double d0)
  | D6 d0 -> D3 (succ_double d0)
  | D7 d0 -> D5 (succ_double d0)
  | D8 d0 -> D7 (succ_double d0)
  | D9 d0 -> D9 (succ_double d0)
 end

module Coq__1 = struct
 (** val add : nat -> nat -> nat **)
 let rec add n0 m =
   match n0 with
   | O -> m
   | S p -> S (add p m)
end
include Coq__1

(** val mul : nat -> nat -> nat **)

let rec mul n0 m =
  match n0 with
  | O -> O
  | S p -> add m (mul p m)

(** val sub : nat -> nat -> nat **)

let rec sub n0 m =
  match n0 with
  | O -> n0
  | S k -> (match m with
            | O -> n0
            | S l -> sub k l)

(** val eqb : nat -> nat -> bool **)

let rec eqb n0 m =
  match n0 with
  | O -> (match m with
          | O -> true
          | S _ -> false)
  | S n' -> (match m with
             | O -> false
             | S m' -> eqb n' m')

(** val max : nat -> nat -> nat **)

let rec max n0 m =
  match n0 with
  | O -> m
  | S n' -> (match m with
             | O -> n0
             | S m' -> S (max n' m'))

(** val bool_dec : bool -> bool -> bool **)

let bool_dec b1 b2 =
  if b1 then if b2 then true else false else if b2 then false else true

(** val eqb0 : bool -> bool -> bool **)

let eqb0 b1 b2 =
  if b1 then b2 else if b2 then false else true

type positive =
| XI of positive
| XO of positive
| XH

type n =
| N0
| Npos of positive

type z =
| Z0
| Zpos of positive
| Zneg of positive

module Nat =
 struct
  (** val sub : nat -> nat -> nat **)

  let rec sub n0 m =
    match n0 with
    | O -> n0
    | S k -> (match m with
              | O -> n0
              | S l -> sub k l)

  (** val eqb : nat -> nat -> bool **)

  let rec eqb n0 m =
    match n0 with
    | O -> (match m with
            | O -> true
            | S _ -> false)
    | S n' -> (match m with
               | O -> false
               | S m' -> eqb n' m')

  (** val leb : nat -> nat -> bool **)

  let rec leb n0 m =
    match n0 with
    | O -> true
    | S n' -> (match m with
               | O -> false
               | S m' -> leb n' m')

  (** val divmod : nat -> nat -> nat -> nat -> nat * nat **)

  let rec divmod x y q u =
    match x with
    | O -> (q, u)
    | S x' ->
      (match u with
       | O -> divmod x' y (S q) y
       | S u' -> divmod x' y q u')

  (** val modulo : nat -> nat -> nat **)

  let modulo x = function
  | O -> x
  | S y' -> sub y' (snd (divmod x y' O y'))

  (** val div2 : nat -> nat **)

  let rec div2 = function
  | O -> O
  | S n1 -> (match n1 with
             | O -> O
             | S n' -> S (div2 n'))
 end

module Pos =
 struct
  type mask =
  | IsNul
  | IsPos of positive
  | IsNeg
 end

module Coq_Pos =
 struct
  (** val succ : positive -> positive **)

  let rec succ = function
  | XI p -> XO (succ p)
  | XO p -> XI p
  | XH -> XO XH

  (** val add : positive -> positive -> positive **)

  let rec add x y =
    match x with
    | XI p ->
      (match y with
       | XI q -> XO (add_carry p q)
       | XO q -> XI (add p q)
       | XH -> XO (succ p))
    | XO p ->
      (match y with
       | XI q -> XI (add p q)
       | XO q -> XO (add p q)
       | XH -> XI p)
    | XH -> (match y with
             | XI q -> XO (succ q)
             | XO q -> XI q
             | XH -> XO XH)

  (** val add_carry : positive -> positive -> positive **)

  and add_carry x y =
    match x with
    | XI p ->
      (match y with
       | XI q -> XI (add_carry p q)
       | XO q -> XO (add_carry p q)
       | XH -> XI (succ p))
    | XO p ->
      (match y with
       | XI q -> XO (add_carry p q)
       | XO q -> XI (add p q)
       | XH -> XO (succ p))
    | XH ->
      (match y with
       | XI q -> XI (succ q)
       | XO q -> XO (succ q)
       | XH -> XI XH)

  (** val pred_double : positive -> positive **)

  let rec pred_double = function
  | XI p -> XI (XO p)
  | XO p -> XI (pred_double p)
  | XH -> XH

  type mask = Pos.mask =
  | IsNul
  | IsPos of positive
  | IsNeg

  (** val succ_double_mask : mask -> mask **)

  let succ_double_mask = function
  | IsNul -> IsPos XH
  | IsPos p -> IsPos (XI p)
  | IsNeg -> IsNeg

  (** val double_mask : mask -> mask **)

  let double_mask = function
  | IsPos p -> IsPos (XO p)
  | x0 -> x0

  (** val double_pred_mask : positive -> mask **)

  let double_pred_mask = function
  | XI p -> IsPos (XO (XO p))
  | XO p -> IsPos (XO (pred_double p))
  | XH -> IsNul

  (** val sub_mask : positive -> positive -> mask **)

  let rec sub_mask x y =
    match x with
    | XI p ->
      (match y with
       | XI q -> double_mask (sub_mask p q)
       | XO q -> succ_double_mask (sub_mask p q)
       | XH -> IsPos (XO p))
    | XO p ->
      (match y with
       | XI q -> succ_double_mask (sub_mask_carry p q)
       | XO q -> double_mask (sub_mask p q)
       | XH -> IsPos (pred_double p))
    | XH -> (match y with
             | XH -> IsNul
             | _ -> IsNeg)

  (** val sub_mask_carry : positive -> positive -> mask **)

  and sub_mask_carry x y =
    match x with
    | XI p ->
      (match y with
       | XI q -> succ_double_mask (sub_mask_carry p q)
       | XO q -> double_mask (sub_mask p q)
       | XH -> IsPos (pred_double p))
    | XO p ->
      (match y with
       | XI q -> double_mask (sub_mask_carry p q)
       | XO q -> succ_double_mask (sub_mask_carry p q)
       | XH -> double_pred_mask p)
    | XH -> IsNeg

  (** val mul : positive -> positive -> positive **)

  let rec mul x y =
    match x with
    | XI p -> add y (XO (mul p y))
    | XO p -> XO (mul p y)
    | XH -> y

  (** val size_nat : positive -> nat **)

  let rec size_nat = function
  | XI p0 -> S (size_nat p0)
  | XO p0 -> S (size_nat p0)
  | XH -> S O

  (** val compare_cont : comparison -> positive -> positive -> comparison **)

  let rec compare_cont r x y =
    match x with
    | XI p ->
      (match y with
       | XI q -> compare_cont r p q
       | XO q -> compare_cont Gt p q
       | XH -> Gt)
    | XO p ->
      (match y with
       | XI q -> compare_cont Lt p q
       | XO q -> compare_cont r p q
       | XH -> Gt)
    | XH -> (match y with
             | XH -> r
             | _ -> Lt)

  (** val compare : positive -> positive -> comparison **)

  let compare =
    compare_cont Eq

  (** val eqb : positive -> positive -> bool **)

  let rec eqb p q =
    match p with
    | XI p0 -> (match q with
                | XI q0 -> eqb p0 q0
                | _ -> false)
    | XO p0 -> (match q with
                | XO q0 -> eqb p0 q0
                | _ -> false)
    | XH -> (match q with
             | XH -> true
             | _ -> false)

  (** val iter_op : ('a1 -> 'a1 -> 'a1) -> positive -> 'a1 -> 'a1 **)

  let rec iter_op op p a =
    match p with
    | XI p0 -> op a (iter_op op p0 (op a a))
    | XO p0 -> iter_op op p0 (op a a)
    | XH -> a

  (** val to_nat : positive -> nat **)

  let to_nat x =
    iter_op Coq__1.add x (S O)

  (** val of_succ_nat : nat -> positive **)

  let rec of_succ_nat = function
  | O -> XH
  | S x -> succ (of_succ_nat x)

  (** val to_little_uint : positive -> uint **)

  let rec to_little_uint = function
  | XI p0 -> Little.succ_double (to_little_uint p0)
  | XO p0 -> Little.double (to_little_uint p0)
  | XH -> D1 Nil

  (** val to_uint : positive -> uint **)

  let to_uint p =
    rev (to_little_uint p)

  (** val eq_dec : positive -> positive -> bool **)

  let rec eq_dec p x0 =
    match p with
    | XI p0 -> (match x0 with
                | XI p1 -> eq_dec p0 p1
                | _ -> false)
    | XO p0 -> (match x0 with
                | XO p1 -> eq_dec p0 p1
                | _ -> false)
    | XH -> (match x0 with
             | XH -> true
             | _ -> false)
 end

module N =
 struct
  (** val succ_double : n -> n **)

  let succ_double = function
  | N0 -> Npos XH
  | Npos p -> Npos (XI p)

  (** val double : n -> n **)

  let double = function
  | N0 -> N0
  | Npos p -> Npos (XO p)

  (** val succ : n -> n **)

  let succ = function
  | N0 -> Npos XH
  | Npos p -> Npos (Coq_Pos.succ p)

  (** val add : n -> n -> n **)

  let add n0 m =
    match n0 with
    | N0 -> m
    | Npos p -> (match m with
                 | N0 -> n0
                 | Npos q -> Npos (Coq_Pos.add p q))

  (** val sub : n -> n -> n **)

  let sub n0 m =
    match n0 with
    | N0 -> N0
    | Npos n' ->
      (match m with
       | N0 -> n0
       | Npos m' ->
         (match Coq_Pos.sub_mask n' m' with
          | Coq_Pos.IsPos p -> Npos p
          | _ -> N0))

  (** val mul : n -> n -> n **)

  let mul n0 m =
    match n0 with
    | N0 -> N0
    | Npos p -> (match m with
                 | N0 -> N0
                 | Npos q -> Npos (Coq_Pos.mul p q))

  (** val compare : n -> n -> comparison **)

  let compare n0 m =
    match n0 with
    | N0 -> (match m with
             | N0 -> Eq
             | Npos _ -> Lt)
    | Npos n' -> (match m with
                  | N0 -> Gt
                  | Npos m' -> Coq_Pos.compare n' m')

  (** val eqb : n -> n -> bool **)

  let eqb n0 m =
    match n0 with
    | N0 -> (match m with
             | N0 -> true
             | Npos _ -> false)
    | Npos p -> (match m with
                 | N0 -> false
                 | Npos q -> Coq_Pos.eqb p q)

  (** val leb : n -> n -> bool **)

  let leb x y =
    match compare x y with
    | Gt -> false
    | _ -> true

  (** val ltb : n -> n -> bool **)

  let ltb x y =
    match compare x y with
    | Lt -> true
    | _ -> false

  (** val div2 : n -> n **)

  let div2 = function
  | N0 -> N0
  | Npos p0 -> (match p0 with
                | XI p -> Npos p
                | XO p -> Npos p
                | XH -> N0)

  (** val even : n -> bool **)

  let even = function
  | N0 -> true
  | Npos p -> (match p with
               | XO _ -> true
               | _ -> false)

  (** val odd : n -> bool **)

  let odd n0 =
    negb (even n0)

  (** val size_nat : n -> nat **)

  let size_nat = function
  | N0 -> O
  | Npos p -> Coq_Pos.size_nat p

  (** val pos_div_eucl : positive -> n -> n * n **)

  let rec pos_div_eucl a b =
    match a with
    | XI a' ->
      let (q, r) = pos_div_eucl a' b in
      let r' = succ_double r in
      if leb b r' then ((succ_double q), (sub r' b)) else ((double q), r')
    | XO a' ->
      let (q, r) = pos_div_eucl a' b in
      let r' = double r in
      if leb b r' then ((succ_double q), (sub r' b)) else ((double q), r')
    | XH ->
      (match b with
       | N0 -> (N0, (Npos XH))
       | Npos p -> (match p with
                    | XH -> ((Npos XH), N0)
                    | _ -> (N0, (Npos XH))))

  (** val div_eucl : n -> n -> n * n **)

  let div_eucl a b =
    match a with
    | N0 -> (N0, N0)
    | Npos na -> (match b with
                  | N0 -> (N0, a)
                  | Npos _ -> pos_div_eucl na b)

  (** val div : n -> n -> n **)

  let div a b =
    fst (div_eucl a b)

  (** val modulo : n -> n -> n **)

  let modulo a b =
    snd (div_eucl a b)

  (** val to_nat : n -> nat **)

  let to_nat = function
  | N0 -> O
  | Npos p -> Coq_Pos.to_nat p

  (** val of_nat : nat -> n **)

  let of_nat = function
  | O -> N0
  | S n' -> Npos (Coq_Pos.of_succ_nat n')

  (** val to_uint : n -> uint **)

  let to_uint = function
  | N0 -> D0 Nil
  | Npos p -> Coq_Pos.to_uint p

  (** val eq_dec : n -> n -> bool **)

  let eq_dec n0 m =
    match n0 with
    | N0 -> (match m with
             | N0 -> true
             | Npos _ -> false)
    | Npos p -> (match m with
                 | N0 -> false
                 | Npos p0 -> Coq_Pos.eq_dec p p0)
 end

(** val zero : char **)

let zero = '\000'

(** val one : char **)

let one = '\001'

(** val shift : bool -> char -> char **)

let shift = fun b c -> Char.chr (((Char.code c) lsl 1) land 255 + if b then 1 else 0)

(** val ascii_of_pos : positive -> char **)

let ascii_of_pos =
  let rec loop n0 p =
    match n0 with
    | O -> zero
    | S n' ->
      (match p with
       | XI p' -> shift true (loop n' p')
       | XO p' -> shift false (loop n' p')
       | XH -> one)
  in loop (S (S (S (S (S (S (S (S O))))))))

(** val ascii_of_N : n -> char **)

let ascii_of_N = function
| N0 -> zero
| Npos p -> ascii_of_pos p

(** val ascii_of_nat : nat -> char **)

let ascii_of_nat a =
  ascii_of_N (N.of_nat a)

(** val n_of_digits : bool list -> n **)

let rec n_of_digits = function
| [] -> N0
| b :: l' ->
  N.add (if b then Npos XH else N0) (N.mul (Npos (XO XH)) (n_of_digits l'))

(** val n_of_ascii : char -> n **)

let n_of_ascii a =
  (* If this appears, you're using Ascii internals. Please don't *)
 (fun f c ->
  let n = Char.code c in
  let h i = (n land (1 lsl i)) <> 0 in
  f (h 0) (h 1) (h 2) (h 3) (h 4) (h 5) (h 6) (h 7))
    (fun a0 a1 a2 a3 a4 a5 a6 a7 ->
    n_of_digits
      (a0 :: (a1 :: (a2 :: (a3 :: (a4 :: (a5 :: (a6 :: (a7 :: [])))))))))
    a

(** val nat_of_ascii : char -> nat **)

let nat_of_ascii a =
  N.to_nat (n_of_ascii a)

(** val nth_error : 'a1 list -> nat -> 'a1 option **)

let rec nth_error l = function
| O -> (match l with
        | [] -> None
        | x :: _ -> Some x)
| S n1 -> (match l with
           | [] -> None
           | _ :: l0 -> nth_error l0 n1)

(** val rev0 : 'a1 list -> 'a1 list **)

let rec rev0 = function
| [] -> []
| x :: l' -> app (rev0 l') (x :: [])

(** val map : ('a1 -> 'a2) -> 'a1 list -> 'a2 list **)

let rec map f = function
| [] -> []
| a :: t -> (f a) :: (map f t)

(** val flat_map : ('a1 -> 'a2 list) -> 'a1 list -> 'a2 list **)

let rec flat_map f = function
| [] -> []
| x :: t -> app (f x) (flat_map f t)

(** val fold_right : ('a2 -> 'a1 -> 'a1) -> 'a1 -> 'a2 list -> 'a1 **)

let rec fold_right f a0 = function
| [] -> a0
| b :: t -> f b (fold_right f a0 t)

(** val existsb : ('a1 -> bool) -> 'a1 list -> bool **)

let rec existsb f = function
| [] -> false
| a :: l0 -> (||) (f a) (existsb f l0)

(** val forallb : ('a1 -> bool) -> 'a1 list -> bool **)

let rec forallb f = function
| [] -> true
| a :: l0 -> (&&) (f a) (forallb f l0)

(** val filter : ('a1 -> bool) -> 'a1 list -> 'a1 list **)

let rec filter f = function
| [] -> []
| x :: l0 -> if f x then x :: (filter f l0) else filter f l0

(** val find : ('a1 -> bool) -> 'a1 list -> 'a1 option **)

let rec find f = function
| [] -> None
| x :: tl -> if f x then Some x else find f tl

(** val firstn : nat -> 'a1 list -> 'a1 list **)

let rec firstn n0 l =
  match n0 with
  | O -> []
  | S n1 -> (match l with
             | [] -> []
             | a :: l0 -> a :: (firstn n1 l0))

(** val skipn : nat -> 'a1 list -> 'a1 list **)

let rec skipn n0 l =
  match n0 with
  | O -> l
  | S n1 -> (match l with
             | [] -> []
             | _ :: l0 -> skipn n1 l0)

module Z =
 struct
  (** val double : z -> z **)

  let double = function
  | Z0 -> Z0
  | Zpos p -> Zpos (XO p)
  | Zneg p -> Zneg (XO p)

  (** val succ_double : z -> z **)

  let succ_double = function
  | Z0 -> Zpos XH
  | Zpos p -> Zpos (XI p)
  | Zneg p -> Zneg (Coq_Pos.pred_double p)

  (** val pred_double : z -> z **)

  let pred_double = function
  | Z0 -> Zneg XH
  | Zpos p -> Zpos (Coq_Pos.pred_double p)
  | Zneg p -> Zneg (XI p)

  (** val pos_sub : positive -> positive -> z **)

  let rec pos_sub x y =
    match x with
    | XI p ->
      (match y with
       | XI q -> double (pos_sub p q)
       | XO q -> succ_double (pos_sub p q)
       | XH -> Zpos (XO p))
    | XO p ->
      (match y with
       | XI q -> pred_double (pos_sub p q)
       | XO q -> double (pos_sub p q)
       | XH -> Zpos (Coq_Pos.pred_double p))
    | XH ->
      (match y with
       | XI q -> Zneg (XO q)
       | XO q -> Zneg (Coq_Pos.pred_double q)
       | XH -> Z0)

  (** val add : z -> z -> z **)

  let add x y =
    match x with
    | Z0 -> y
    | Zpos x' ->
      (match y with
       | Z0 -> x
       | Zpos y' -> Zpos (Coq_Pos.add x' y')
       | Zneg y' -> pos_sub x' y')
    | Zneg x' ->
      (match y with
       | Z0 -> x
       | Zpos y' -> pos_sub y' x'
       | Zneg y' -> Zneg (Coq_Pos.add x' y'))

  (** val opp : z -> z **)

  let opp = function
  | Z0 -> Z0
  | Zpos x0 -> Zneg x0
  | Zneg x0 -> Zpos x0

  (** val compare : z -> z -> comparison **)

  let compare x y =
    match x with
    | Z0 -> (match y with
             | Z0 -> Eq
             | Zpos _ -> Lt
             | Zneg _ -> Gt)
    | Zpos x' -> (match y with
                  | Zpos y' -> Coq_Pos.compare x' y'
                  | _ -> Gt)
    | Zneg x' ->
      (match y with
       | Zneg y' -> compOpp (Coq_Pos.compare x' y')
       | _ -> Lt)

  (** val ltb : z -> z -> bool **)

  let ltb x y =
    match compare x y with
    | Lt -> true
    | _ -> false

  (** val to_N : z -> n **)

  let to_N = function
  | Zpos p -> Npos p
  | _ -> N0

  (** val of_N : n -> z **)

  let of_N = function
  | N0 -> Z0
  | Npos p -> Zpos p
 end

(** val string_dec : char list -> char list -> bool **)

let rec string_dec s x =
  match s with
  | [] -> (match x with
           | [] -> true
           | _::_ -> false)
  | a::s0 ->
    (match x with
     | [] -> false
     | a0::s1 -> if (=) a a0 then string_dec s0 s1 else false)

(** val eqb1 : char list -> char list -> bool **)

let rec eqb1 s1 s2 =
  match s1 with
  | [] -> (match s2 with
           | [] -> true
           | _::_ -> false)
  | c1::s1' ->
    (match s2 with
     | [] -> false
     | c2::s2' -> if (=) c1 c2 then eqb1 s1' s2' else false)

(** val append : char list -> char list -> char list **)

let rec append s1 s2 =
  match s1 with
  | [] -> s2
  | c::s1' -> c::(append s1' s2)

(** val length0 : char list -> nat **)

let rec length0 = function
| [] -> O
| _::s' -> S (length0 s')

(** val get : nat -> char list -> char option **)

let rec get n0 = function
| [] -> None
| c::s' -> (match n0 with
            | O -> Some c
            | S n' -> get n' s')

(** val substring : nat -> nat -> char list -> char list **)

let rec substring n0 m s =
  match n0 with
  | O ->
    (match m with
     | O -> []
     | S m' -> (match s with
                | [] -> s
                | c::s' -> c::(substring O m' s')))
  | S n' -> (match s with
             | [] -> s
             | _::s' -> substring n' m s')

(** val prefix : char list -> char list -> bool **)

let rec prefix s1 s2 =
  match s1 with
  | [] -> true
  | a::s1' ->
    (match s2 with
     | [] -> false
     | b::s2' -> if (=) a b then prefix s1' s2' else false)

(** val string_of_list_ascii : char list -> char list **)

let rec string_of_list_ascii = function
| [] -> []
| ch :: s0 -> ch::(string_of_list_ascii s0)

type kind =
| KScript
| KModule
| KBlock
| KExprStmt
| KIf
| KReturn
| KVarDecl
| KVarDeclarator
| KEmptyStmt
| KBin
| KAssign
| KTpl
| KTplElem
| KTaggedTpl
| KCall
| KNew
| KMember
| KSuperProp
| KOptChain
| KUnary
| KUpdate
| KArrow
| KParen
| KSeq
| KCond
| KArray
| KObject
| KKeyValue
| KIdent
| KIdentName
| KComputed
| KSpreadElement
| KStr
| KNum
| KBoolLit
| KNullLit
| KRegex
| KBigInt
| KJSXText
| KFnDecl
| KFnExpr
| KClassDecl
| KClassExpr
| KParam
| KClassMethod
| KPrivateMethod
| KConstructor
| KClassProp
| KPrivateProp
| KStaticBlock
| KMethodProp
| KGetterProp
| KSetterProp
| KAssignProp
| KArrayPat
| KObjectPat
| KAssignPat
| KRestPat
| KKeyValuePat
| KAssignPatProp
| KThis
| KSuper
| KImport
| KYield
| KAwait
| KMetaProp
| KPrivateName
| KFor
| KForIn
| KForOf
| KWhile
| KDoWhile
| KSwitch
| KSwitchCase
| KTry
| KCatch
| KThrow
| KLabeled
| KBreak
| KContinue
| KWith
| KDebugger
| KImportDecl
| KExportDecl
| KExportDefaultDecl
| KExportDefaultExpr
| KExportNamed
| KExportAll
| KOther of char list

(** val kind_table : (char list * kind) list **)

let kind_table =
  (('S'::('c'::('r'::('i'::('p'::('t'::[])))))),
    KScript) :: ((('M'::('o'::('d'::('u'::('l'::('e'::[])))))),
    KModule) :: ((('B'::('l'::('o'::('c'::('k'::('S'::('t'::('a'::('t'::('e'::('m'::('e'::('n'::('t'::[])))))))))))))),
    KBlock) :: ((('E'::('x'::('p'::('r'::('e'::('s'::('s'::('i'::('o'::('n'::('S'::('t'::('a'::('t'::('e'::('m'::('e'::('n'::('t'::[]))))))))))))))))))),
    KExprStmt) :: ((('I'::('f'::('S'::('t'::('a'::('t'::('e'::('m'::('e'::('n'::('t'::[]))))))))))),
    KIf) :: ((('R'::('e'::('t'::('u'::('r'::('n'::('S'::('t'::('a'::('t'::('e'::('m'::('e'::('n'::('t'::[]))))))))))))))),
    KReturn) :: ((('V'::('a'::('r'::('i'::('a'::('b'::('l'::('e'::('D'::('e'::('c'::('l'::('a'::('r'::('a'::('t'::('i'::('o'::('n'::[]))))))))))))))))))),
    KVarDecl) :: ((('V'::('a'::('r'::('i'::('a'::('b'::('l'::('e'::('D'::('e'::('c'::('l'::('a'::('r'::('a'::('t'::('o'::('r'::[])))))))))))))))))),
    KVarDeclarator) :: ((('E'::('m'::('p'::('t'::('y'::('S'::('t'::('a'::('t'::('e'::('m'::('e'::('n'::('t'::[])))))))))))))),
    KEmptyStmt) :: ((('B'::('i'::('n'::('a'::('r'::('y'::('E'::('x'::('p'::('r'::('e'::('s'::('s'::('i'::('o'::('n'::[])))))))))))))))),
    KBin) :: ((('A'::('s'::('s'::('i'::('g'::('n'::('m'::('e'::('n'::('t'::('E'::('x'::('p'::('r'::('e'::('s'::('s'::('i'::('o'::('n'::[])))))))))))))))))))),
    KAssign) :: ((('T'::('e'::('m'::('p'::('l'::('a'::('t'::('e'::('L'::('i'::('t'::('e'::('r'::('a'::('l'::[]))))))))))))))),
    KTpl) :: ((('T'::('e'::('m'::('p'::('l'::('a'::('t'::('e'::('E'::('l'::('e'::('m'::('e'::('n'::('t'::[]))))))))))))))),
    KTplElem) :: ((('T'::('a'::('g'::('g'::('e'::('d'::('T'::('e'::('m'::('p'::('l'::('a'::('t'::('e'::('E'::('x'::('p'::('r'::('e'::('s'::('s'::('i'::('o'::('n'::[])))))))))))))))))))))))),
    KTaggedTpl) :: ((('C'::('a'::('l'::('l'::('E'::('x'::('p'::('r'::('e'::('s'::('s'::('i'::('o'::('n'::[])))))))))))))),
    KCall) :: ((('N'::('e'::('w'::('E'::('x'::('p'::('r'::('e'::('s'::('s'::('i'::('o'::('n'::[]))))))))))))),
    KNew) :: ((('M'::('e'::('m'::('b'::('e'::('r'::('E'::('x'::('p'::('r'::('e'::('s'::('s'::('i'::('o'::('n'::[])))))))))))))))),
    KMember) :: ((('S'::('u'::('p'::('e'::('r'::('P'::('r'::('o'::('p'::('E'::('x'::('p'::('r'::('e'::('s'::('s'::('i'::('o'::('n'::[]))))))))))))))))))),
    KSuperProp) :: ((('O'::('p'::('t'::('i'::('o'::('n'::('a'::('l'::('C'::('h'::('a'::('i'::('n'::('i'::('n'::('g'::('E'::('x'::('p'::('r'::('e'::('s'::('s'::('i'::('o'::('n'::[])))))))))))))))))))))))))),
    KOptChain) :: ((('U'::('n'::('a'::('r'::('y'::('E'::('x'::('p'::('r'::('e'::('s'::('s'::('i'::('o'::('n'::[]))))))))))))))),
    KUnary) :: ((('U'::('p'::('d'::('a'::('t'::('e'::('E'::('x'::('p'::('r'::('e'::('s'::('s'::('i'::('o'::('n'::[])))))))))))))))),
    KUpdate) :: ((('A'::('r'::('r'::('o'::('w'::('F'::('u'::('n'::('c'::('t'::('i'::('o'::('n'::('E'::('x'::('p'::('r'::('e'::('s'::('s'::('i'::('o'::('n'::[]))))))))))))))))))))))),
    KArrow) :: ((('P'::('a'::('r'::('e'::('n'::('t'::('h'::('e'::('s'::('i'::('s'::('E'::('x'::('p'::('r'::('e'::('s'::('s'::('i'::('o'::('n'::[]))))))))))))))))))))),
    KParen) :: ((('S'::('e'::('q'::('u'::('e'::('n'::('c'::('e'::('E'::('x'::('p'::('r'::('e'::('s'::('s'::('i'::('o'::('n'::[])))))))))))))))))),
    KSeq) :: ((('C'::('o'::('n'::('d'::('i'::('t'::('i'::('o'::('n'::('a'::('l'::('E'::('x'::('p'::('r'::('e'::('s'::('s'::('i'::('o'::('n'::[]))))))))))))))))))))),
    KCond) :: ((('A'::('r'::('r'::('a'::('y'::('E'::('x'::('p'::('r'::('e'::('s'::('s'::('i'::('o'::('n'::[]))))))))))))))),
    KArray) :: ((('O'::('b'::('j'::('e'::('c'::('t'::('E'::('x'::('p'::('r'::('e'::('s'::('s'::('i'::('o'::('n'::[])))))))))))))))),
    KObject) :: ((('K'::('e'::('y'::('V'::('a'::('l'::('u'::('e'::('P'::('r'::('o'::('p'::('e'::('r'::('t'::('y'::[])))))))))))))))),
    KKeyValue) :: ((('I'::('d'::('e'::('n'::('t'::('i'::('f'::('i'::('e'::('r'::[])))))))))),
    KIdent) :: ((('I'::('d'::('e'::('n'::('t'::('N'::('a'::('m'::('e'::[]))))))))),
    KIdentName) :: ((('C'::('o'::('m'::('p'::('u'::('t'::('e'::('d'::[])))))))),
    KComputed) :: ((('S'::('p'::('r'::('e'::('a'::('d'::('E'::('l'::('e'::('m'::('e'::('n'::('t'::[]))))))))))))),
    KSpreadElement) :: ((('S'::('t'::('r'::('i'::('n'::('g'::('L'::('i'::('t'::('e'::('r'::('a'::('l'::[]))))))))))))),
    KStr) :: ((('N'::('u'::('m'::('e'::('r'::('i'::('c'::('L'::('i'::('t'::('e'::('r'::('a'::('l'::[])))))))))))))),
    KNum) :: ((('B'::('o'::('o'::('l'::('e'::('a'::('n'::('L'::('i'::('t'::('e'::('r'::('a'::('l'::[])))))))))))))),
    KBoolLit) :: ((('N'::('u'::('l'::('l'::('L'::('i'::('t'::('e'::('r'::('a'::('l'::[]))))))))))),
    KNullLit) :: ((('R'::('e'::('g'::('E'::('x'::('p'::('L'::('i'::('t'::('e'::('r'::('a'::('l'::[]))))))))))))),
    KRegex) :: ((('B'::('i'::('g'::('I'::('n'::('t'::('L'::('i'::('t'::('e'::('r'::('a'::('l'::[]))))))))))))),
    KBigInt) :: ((('J'::('S'::('X'::('T'::('e'::('x'::('t'::[]))))))),
    KJSXText) :: ((('F'::('u'::('n'::('c'::('t'::('i'::('o'::('n'::('D'::('e'::('c'::('l'::('a'::('r'::('a'::('t'::('i'::('o'::('n'::[]))))))))))))))))))),
    KFnDecl) :: ((('F'::('u'::('n'::('c'::('t'::('i'::('o'::('n'::('E'::('x'::('p'::('r'::('e'::('s'::('s'::('i'::('o'::('n'::[])))))))))))))))))),
    KFnExpr) :: ((('C'::('l'::('a'::('s'::('s'::('D'::('e'::('c'::('l'::('a'::('r'::('a'::('t'::('i'::('o'::('n'::[])))))))))))))))),
    KClassDecl) :: ((('C'::('l'::('a'::('s'::('s'::('E'::('x'::('p'::('r'::('e'::('s'::('s'::('i'::('o'::('n'::[]))))))))))))))),
    KClassExpr) :: ((('P'::('a'::('r'::('a'::('m'::('e'::('t'::('e'::('r'::[]))))))))),
    KParam) :: ((('C'::('l'::('a'::('s'::('s'::('M'::('e'::('t'::('h'::('o'::('d'::[]))))))))))),
    KClassMethod) :: ((('P'::('r'::('i'::('v'::('a'::('t'::('e'::('M'::('e'::('t'::('h'::('o'::('d'::[]))))))))))))),
    KPrivateMethod) :: ((('C'::('o'::('n'::('s'::('t'::('r'::('u'::('c'::('t'::('o'::('r'::[]))))))))))),
    KConstructor) :: ((('C'::('l'::('a'::('s'::('s'::('P'::('r'::('o'::('p'::('e'::('r'::('t'::('y'::[]))))))))))))),
    KClassProp) :: ((('P'::('r'::('i'::('v'::('a'::('t'::('e'::('P'::('r'::('o'::('p'::('e'::('r'::('t'::('y'::[]))))))))))))))),
    KPrivateProp) :: ((('S'::('t'::('a'::('t'::('i'::('c'::('B'::('l'::('o'::('c'::('k'::[]))))))))))),
    KStaticBlock) :: ((('M'::('e'::('t'::('h'::('o'::('d'::('P'::('r'::('o'::('p'::('e'::('r'::('t'::('y'::[])))))))))))))),
    KMethodProp) :: ((('G'::('e'::('t'::('t'::('e'::('r'::('P'::('r'::('o'::('p'::('e'::('r'::('t'::('y'::[])))))))))))))),
    KGetterProp) :: ((('S'::('e'::('t'::('t'::('e'::('r'::('P'::('r'::('o'::('p'::('e'::('r'::('t'::('y'::[])))))))))))))),
    KSetterProp) :: ((('A'::('s'::('s'::('i'::('g'::('n'::('m'::('e'::('n'::('t'::('P'::('r'::('o'::('p'::('e'::('r'::('t'::('y'::[])))))))))))))))))),
    KAssignProp) :: ((('A'::('r'::('r'::('a'::('y'::('P'::('a'::('t'::('t'::('e'::('r'::('n'::[])))))))))))),
    KArrayPat) :: ((('O'::('b'::('j'::('e'::('c'::('t'::('P'::('a'::('t'::('t'::('e'::('r'::('n'::[]))))))))))))),
    KObjectPat) :: ((('A'::('s'::('s'::('i'::('g'::('n'::('m'::('e'::('n'::('t'::('P'::('a'::('t'::('t'::('e'::('r'::('n'::[]))))))))))))))))),
    KAssignPat) :: ((('R'::('e'::('s'::('t'::('E'::('l'::('e'::('m'::('e'::('n'::('t'::[]))))))))))),
    KRestPat) :: ((('K'::('e'::('y'::('V'::('a'::('l'::('u'::('e'::('P'::('a'::('t'::('t'::('e'::('r'::('n'::('P'::('r'::('o'::('p'::('e'::('r'::('t'::('y'::[]))))))))))))))))))))))),
    KKeyValuePat) :: ((('A'::('s'::('s'::('i'::('g'::('n'::('m'::('e'::('n'::('t'::('P'::('a'::('t'::('t'::('e'::('r'::('n'::('P'::('r'::('o'::('p'::('e'::('r'::('t'::('y'::[]))))))))))))))))))))))))),
    KAssignPatProp) :: ((('T'::('h'::('i'::('s'::('E'::('x'::('p'::('r'::('e'::('s'::('s'::('i'::('o'::('n'::[])))))))))))))),
    KThis) :: ((('S'::('u'::('p'::('e'::('r'::[]))))),
    KSuper) :: ((('I'::('m'::('p'::('o'::('r'::('t'::[])))))),
    KImport) :: ((('Y'::('i'::('e'::('l'::('d'::('E'::('x'::('p'::('r'::('e'::('s'::('s'::('i'::('o'::('n'::[]))))))))))))))),
    KYield) :: ((('A'::('w'::('a'::('i'::('t'::('E'::('x'::('p'::('r'::('e'::('s'::('s'::('i'::('o'::('n'::[]))))))))))))))),
    KAwait) :: ((('M'::('e'::('t'::('a'::('P'::('r'::('o'::('p'::('e'::('r'::('t'::('y'::[])))))))))))),
    KMetaProp) :: ((('P'::('r'::('i'::('v'::('a'::('t'::('e'::('N'::('a'::('m'::('e'::[]))))))))))),
    KPrivateName) :: ((('F'::('o'::('r'::('S'::('t'::('a'::('t'::('e'::('m'::('e'::('n'::('t'::[])))))))))))),
    KFor) :: ((('F'::('o'::('r'::('I'::('n'::('S'::('t'::('a'::('t'::('e'::('m'::('e'::('n'::('t'::[])))))))))))))),
    KForIn) :: ((('F'::('o'::('r'::('O'::('f'::('S'::('t'::('a'::('t'::('e'::('m'::('e'::('n'::('t'::[])))))))))))))),
    KForOf) :: ((('W'::('h'::('i'::('l'::('e'::('S'::('t'::('a'::('t'::('e'::('m'::('e'::('n'::('t'::[])))))))))))))),
    KWhile) :: ((('D'::('o'::('W'::('h'::('i'::('l'::('e'::('S'::('t'::('a'::('t'::('e'::('m'::('e'::('n'::('t'::[])))))))))))))))),
    KDoWhile) :: ((('S'::('w'::('i'::('t'::('c'::('h'::('S'::('t'::('a'::('t'::('e'::('m'::('e'::('n'::('t'::[]))))))))))))))),
    KSwitch) :: ((('S'::('w'::('i'::('t'::('c'::('h'::('C'::('a'::('s'::('e'::[])))))))))),
    KSwitchCase) :: ((('T'::('r'::('y'::('S'::('t'::('a'::('t'::('e'::('m'::('e'::('n'::('t'::[])))))))))))),
    KTry) :: ((('C'::('a'::('t'::('c'::('h'::('C'::('l'::('a'::('u'::('s'::('e'::[]))))))))))),
    KCatch) :: ((('T'::('h'::('r'::('o'::('w'::('S'::('t'::('a'::('t'::('e'::('m'::('e'::('n'::('t'::[])))))))))))))),
    KThrow) :: ((('L'::('a'::('b'::('e'::('l'::('e'::('d'::('S'::('t'::('a'::('t'::('e'::('m'::('e'::('n'::('t'::[])))))))))))))))),
    KLabeled) :: ((('B'::('r'::('e'::('a'::('k'::('S'::('t'::('a'::('t'::('e'::('m'::('e'::('n'::('t'::[])))))))))))))),
    KBreak) :: ((('C'::('o'::('n'::('t'::('i'::('n'::('u'::('e'::('S'::('t'::('a'::('t'::('e'::('m'::('e'::('n'::('t'::[]))))))))))))))))),
    KContinue) :: ((('W'::('i'::('t'::('h'::('S'::('t'::('a'::('t'::('e'::('m'::('e'::('n'::('t'::[]))))))))))))),
    KWith) :: ((('D'::('e'::('b'::('u'::('g'::('g'::('e'::('r'::('S'::('t'::('a'::('t'::('e'::('m'::('e'::('n'::('t'::[]))))))))))))))))),
    KDebugger) :: ((('I'::('m'::('p'::('o'::('r'::('t'::('D'::('e'::('c'::('l'::('a'::('r'::('a'::('t'::('i'::('o'::('n'::[]))))))))))))))))),
    KImportDecl) :: ((('E'::('x'::('p'::('o'::('r'::('t'::('D'::('e'::('c'::('l'::('a'::('r'::('a'::('t'::('i'::('o'::('n'::[]))))))))))))))))),
    KExportDecl) :: ((('E'::('x'::('p'::('o'::('r'::('t'::('D'::('e'::('f'::('a'::('u'::('l'::('t'::('D'::('e'::('c'::('l'::('a'::('r'::('a'::('t'::('i'::('o'::('n'::[])))))))))))))))))))))))),
    KExportDefaultDecl) :: ((('E'::('x'::('p'::('o'::('r'::('t'::('D'::('e'::('f'::('a'::('u'::('l'::('t'::('E'::('x'::('p'::('r'::('e'::('s'::('s'::('i'::('o'::('n'::[]))))))))))))))))))))))),
    KExportDefaultExpr) :: ((('E'::('x'::('p'::('o'::('r'::('t'::('N'::('a'::('m'::('e'::('d'::('D'::('e'::('c'::('l'::('a'::('r'::('a'::('t'::('i'::('o'::('n'::[])))))))))))))))))))))),
    KExportNamed) :: ((('E'::('x'::('p'::('o'::('r'::('t'::('A'::('l'::('l'::('D'::('e'::('c'::('l'::('a'::('r'::('a'::('t'::('i'::('o'::('n'::[])))))))))))))))))))),
    KExportAll) :: [])))))))))))))))))))))))))))))))))))))))))))))))))))))))))))))))))))))))))))))))))))))))

(** val assoc_kind : char list -> (char list * kind) list -> kind option **)

let rec assoc_kind s = function
| [] -> None
| p :: t' -> let (n0, k) = p in if eqb1 s n0 then Some k else assoc_kind s t'

(** val kind_of_string : char list -> kind **)

let kind_of_string s =
  match assoc_kind s kind_table with
  | Some k -> k
  | None -> KOther s

(** val kind_eq_dec : kind -> kind -> bool **)

let kind_eq_dec a b =
  match a with
  | KScript -> (match b with
                | KScript -> true
                | _ -> false)
  | KModule -> (match b with
                | KModule -> true
                | _ -> false)
  | KBlock -> (match b with
               | KBlock -> true
               | _ -> false)
  | KExprStmt -> (match b with
                  | KExprStmt -> true
                  | _ -> false)
  | KIf -> (match b with
            | KIf -> true
            | _ -> false)
  | KReturn -> (match b with
                | KReturn -> true
                | _ -> false)
  | KVarDecl -> (match b with
                 | KVarDecl -> true
                 | _ -> false)
  | KVarDeclarator -> (match b with
                       | KVarDeclarator -> true
                       | _ -> false)
  | KEmptyStmt -> (match b with
                   | KEmptyStmt -> true
                   | _ -> false)
  | KBin -> (match b with
             | KBin -> true
             | _ -> false)
  | KAssign -> (match b with
                | KAssign -> true
                | _ -> false)
  | KTpl -> (match b with
             | KTpl -> true
             | _ -> false)
  | KTplElem -> (match b with
                 | KTplElem -> true
                 | _ -> false)
  | KTaggedTpl -> (match b with
                   | KTaggedTpl -> true
                   | _ -> false)
  | KCall -> (match b with
              | KCall -> true
              | _ -> false)
  | KNew -> (match b with
             | KNew -> true
             | _ -> false)
  | KMember -> (match b with
                | KMember -> true
                | _ -> false)
  | KSuperProp -> (match b with
                   | KSuperProp -> true
                   | _ -> false)
  | KOptChain -> (match b with
                  | KOptChain -> true
                  | _ -> false)
  | KUnary -> (match b with
               | KUnary -> true
               | _ -> false)
  | KUpdate -> (match b with
                | KUpdate -> true
                | _ -> false)
  | KArrow -> (match b with
               | KArrow -> true
               | _ -> false)
  | KParen -> (match b with
               | KParen -> true
               | _ -> false)
  | KSeq -> (match b with
             | KSeq -> true
             | _ -> false)
  | KCond -> (match b with
              | KCond -> true
              | _ -> false)
  | KArray -> (match b with
               | KArray -> true
               | _ -> false)
  | KObject -> (match b with
                | KObject -> true
                | _ -> false)
  | KKeyValue -> (match b with
                  | KKeyValue -> true
                  | _ -> false)
  | KIdent -> (match b with
               | KIdent -> true
               | _ -> false)
  | KIdentName -> (match b with
                   | KIdentName -> true
                   | _ -> false)
  | KComputed -> (match b with
                  | KComputed -> true
                  | _ -> false)
  | KSpreadElement -> (match b with
                       | KSpreadElement -> true
                       | _ -> false)
  | KStr -> (match b with
             | KStr -> true
             | _ -> false)
  | KNum -> (match b with
             | KNum -> true
             | _ -> false)
  | KBoolLit -> (match b with
                 | KBoolLit -> true
                 | _ -> false)
  | KNullLit -> (match b with
                 | KNullLit -> true
                 | _ -> false)
  | KRegex -> (match b with
               | KRegex -> true
               | _ -> false)
  | KBigInt -> (match b with
                | KBigInt -> true
                | _ -> false)
  | KJSXText -> (match b with
                 | KJSXText -> true
                 | _ -> false)
  | KFnDecl -> (match b with
                | KFnDecl -> true
                | _ -> false)
  | KFnExpr -> (match b with
                | KFnExpr -> true
                | _ -> false)
  | KClassDecl -> (match b with
                   | KClassDecl -> true
                   | _ -> false)
  | KClassExpr -> (match b with
                   | KClassExpr -> true
                   | _ -> false)
  | KParam -> (match b with
               | KParam -> true
               | _ -> false)
  | KClassMethod -> (match b with
                     | KClassMethod -> true
                     | _ -> false)
  | KPrivateMethod -> (match b with
                       | KPrivateMethod -> true
                       | _ -> false)
  | KConstructor -> (match b with
                     | KConstructor -> true
                     | _ -> false)
  | KClassProp -> (match b with
                   | KClassProp -> true
                   | _ -> false)
  | KPrivateProp -> (match b with
                     | KPrivateProp -> true
                     | _ -> false)
  | KStaticBlock -> (match b with
                     | KStaticBlock -> true
                     | _ -> false)
  | KMethodProp -> (match b with
                    | KMethodProp -> true
                    | _ -> false)
  | KGetterProp -> (match b with
                    | KGetterProp -> true
                    | _ -> false)
  | KSetterProp -> (match b with
                    | KSetterProp -> true
                    | _ -> false)
  | KAssignProp -> (match b with
                    | KAssignProp -> true
                    | _ -> false)
  | KArrayPat -> (match b with
                  | KArrayPat -> true
                  | _ -> false)
  | KObjectPat -> (match b with
                   | KObjectPat -> true
                   | _ -> false)
  | KAssignPat -> (match b with
                   | KAssignPat -> true
                   | _ -> false)
  | KRestPat -> (match b with
                 | KRestPat -> true
                 | _ -> false)
  | KKeyValuePat -> (match b with
                     | KKeyValuePat -> true
                     | _ -> false)
  | KAssignPatProp -> (match b with
                       | KAssignPatProp -> true
                       | _ -> false)
  | KThis -> (match b with
              | KThis -> true
              | _ -> false)
  | KSuper -> (match b with
               | KSuper -> true
               | _ -> false)
  | KImport -> (match b with
                | KImport -> true
                | _ -> false)
  | KYield -> (match b with
               | KYield -> true
               | _ -> false)
  | KAwait -> (match b with
               | KAwait -> true
               | _ -> false)
  | KMetaProp -> (match b with
                  | KMetaProp -> true
                  | _ -> false)
  | KPrivateName -> (match b with
                     | KPrivateName -> true
                     | _ -> false)
  | KFor -> (match b with
             | KFor -> true
             | _ -> false)
  | KForIn -> (match b with
               | KForIn -> true
               | _ -> false)
  | KForOf -> (match b with
               | KForOf -> true
               | _ -> false)
  | KWhile -> (match b with
               | KWhile -> true
               | _ -> false)
  | KDoWhile -> (match b with
                 | KDoWhile -> true
                 | _ -> false)
  | KSwitch -> (match b with
                | KSwitch -> true
                | _ -> false)
  | KSwitchCase -> (match b with
                    | KSwitchCase -> true
                    | _ -> false)
  | KTry -> (match b with
             | KTry -> true
             | _ -> false)
  | KCatch -> (match b with
               | KCatch -> true
               | _ -> false)
  | KThrow -> (match b with
               | KThrow -> true
               | _ -> false)
  | KLabeled -> (match b with
                 | KLabeled -> true
                 | _ -> false)
  | KBreak -> (match b with
               | KBreak -> true
               | _ -> false)
  | KContinue -> (match b with
                  | KContinue -> true
                  | _ -> false)
  | KWith -> (match b with
              | KWith -> true
              | _ -> false)
  | KDebugger -> (match b with
                  | KDebugger -> true
                  | _ -> false)
  | KImportDecl -> (match b with
                    | KImportDecl -> true
                    | _ -> false)
  | KExportDecl -> (match b with
                    | KExportDecl -> true
                    | _ -> false)
  | KExportDefaultDecl ->
    (match b with
     | KExportDefaultDecl -> true
     | _ -> false)
  | KExportDefaultExpr ->
    (match b with
     | KExportDefaultExpr -> true
     | _ -> false)
  | KExportNamed -> (match b with
                     | KExportNamed -> true
                     | _ -> false)
  | KExportAll -> (match b with
                   | KExportAll -> true
                   | _ -> false)
  | KOther name ->
    (match b with
     | KOther name0 -> string_dec name name0
     | _ -> false)

(** val kind_eqb : kind -> kind -> bool **)

let kind_eqb a b =
  if kind_eq_dec a b then true else false

(** val rassoc_kind : kind -> (char list * kind) list -> char list option **)

let rec rassoc_kind k = function
| [] -> None
| p :: t' ->
  let (n0, k') = p in if kind_eqb k k' then Some n0 else rassoc_kind k t'

(** val string_of_kind : kind -> char list **)

let string_of_kind k = match k with
| KOther s -> s
| _ -> (match rassoc_kind k kind_table with
        | Some s -> s
        | None -> '?'::[])

type tag =
| K of kind * n * n
| Obj
| Lst
| Nul
| Str of char list
| Bln of bool
| Num of char list

type node =
| Node of tag * node list

(** val tag_eq_dec : tag -> tag -> bool **)

let tag_eq_dec a b =
  match a with
  | K (k, lo, hi) ->
    (match b with
     | K (k0, lo0, hi0) ->
       if kind_eq_dec k k0
       then if N.eq_dec lo lo0 then N.eq_dec hi hi0 else false
       else false
     | _ -> false)
  | Obj -> (match b with
            | Obj -> true
            | _ -> false)
  | Lst -> (match b with
            | Lst -> true
            | _ -> false)
  | Nul -> (match b with
            | Nul -> true
            | _ -> false)
  | Str s -> (match b with
              | Str s0 -> string_dec s s0
              | _ -> false)
  | Bln b0 -> (match b with
               | Bln b1 -> bool_dec b0 b1
               | _ -> false)
  | Num s -> (match b with
              | Num s0 -> string_dec s s0
              | _ -> false)

(** val tag_eqb : tag -> tag -> bool **)

let tag_eqb a b =
  if tag_eq_dec a b then true else false

(** val node_eqb : node -> node -> bool **)

let rec node_eqb a b =
  let Node (ta, ca) = a in
  let Node (tb, cb) = b in
  (&&) (tag_eqb ta tb)
    (let rec go x y =
       match x with
       | [] -> (match y with
                | [] -> true
                | _ :: _ -> false)
       | p :: x' ->
         (match y with
          | [] -> false
          | q :: y' -> (&&) (node_eqb p q) (go x' y'))
     in go ca cb)

(** val node_size : node -> nat **)

let rec node_size = function
| Node (_, cs) -> S (fold_right (fun c acc1 -> add (node_size c) acc1) O cs)

(** val node_depth : node -> nat **)

let rec node_depth = function
| Node (_, cs) -> S (fold_right (fun c acc1 -> max (node_depth c) acc1) O cs)

type sp = n * n

(** val dUMMY : sp **)

let dUMMY =
  (N0, N0)

(** val mk : kind -> sp -> node list -> node **)

let mk k s cs =
  Node ((K (k, (fst s), (snd s))), cs)

(** val nS : char list -> node **)

let nS s =
  Node ((Str s), [])

(** val nB : bool -> node **)

let nB b =
  Node ((Bln b), [])

(** val nNum : char list -> node **)

let nNum s =
  Node ((Num s), [])

(** val nNul : node **)

let nNul =
  Node (Nul, [])

(** val nL : node list -> node **)

let nL l =
  Node (Lst, l)

(** val nO : node list -> node **)

let nO l =
  Node (Obj, l)

(** val ctxt0 : node **)

let ctxt0 =
  nNum ('0'::[])

(** val span_of : node -> sp **)

let span_of = function
| Node (t, _) -> (match t with
                  | K (_, lo, hi) -> (lo, hi)
                  | _ -> dUMMY)

(** val kind_of : node -> kind option **)

let kind_of = function
| Node (t, _) -> (match t with
                  | K (k, _, _) -> Some k
                  | _ -> None)

(** val is_kind : kind -> node -> bool **)

let is_kind k n0 =
  match kind_of n0 with
  | Some k' -> kind_eqb k k'
  | None -> false

(** val is_dummy : sp -> bool **)

let is_dummy s =
  (&&) (N.eqb (fst s) N0) (N.eqb (snd s) N0)

(** val mk_ident : sp -> char list -> node **)

let mk_ident s sym =
  mk KIdent s (ctxt0 :: ((nS sym) :: ((nB false) :: [])))

(** val mk_binding_ident : sp -> char list -> node **)

let mk_binding_ident s sym =
  mk KIdent s (ctxt0 :: ((nS sym) :: ((nB false) :: (nNul :: []))))

(** val mk_ident_name : sp -> char list -> node **)

let mk_ident_name s sym =
  mk KIdentName s ((nS sym) :: [])

(** val ident_sym : node -> char list option **)

let ident_sym = function
| Node (t, cs) ->
  (match t with
   | K (k, _, _) ->
     (match k with
      | KIdent ->
        (match cs with
         | [] -> None
         | _ :: l ->
           (match l with
            | [] -> None
            | n1 :: _ ->
              let Node (t0, cs0) = n1 in
              (match t0 with
               | Str sym -> (match cs0 with
                             | [] -> Some sym
                             | _ :: _ -> None)
               | _ -> None)))
      | _ -> None)
   | _ -> None)

(** val ident_name_sym : node -> char list option **)

let ident_name_sym = function
| Node (t, cs) ->
  (match t with
   | K (k, _, _) ->
     (match k with
      | KIdentName ->
        (match cs with
         | [] -> None
         | n1 :: _ ->
           let Node (t0, cs0) = n1 in
           (match t0 with
            | Str sym -> (match cs0 with
                          | [] -> Some sym
                          | _ :: _ -> None)
            | _ -> None))
      | _ -> None)
   | _ -> None)

(** val span_obj : sp -> node **)

let span_obj _ =
  nO ((nNum ('0'::[])) :: ((nNum ('0'::[])) :: []))

(** val mk_arg : node -> node **)

let mk_arg e =
  nO (nNul :: (e :: []))

(** val mk_spread_arg : node -> node **)

let mk_spread_arg e =
  nO ((span_obj dUMMY) :: (e :: []))

(** val arg_expr : node -> node option **)

let arg_expr = function
| Node (t, cs) ->
  (match t with
   | Obj ->
     (match cs with
      | [] -> None
      | _ :: l ->
        (match l with
         | [] -> None
         | e :: l0 -> (match l0 with
                       | [] -> Some e
                       | _ :: _ -> None)))
   | _ -> None)

(** val arg_is_spread : node -> bool **)

let arg_is_spread = function
| Node (t, cs) ->
  (match t with
   | Obj ->
     (match cs with
      | [] -> false
      | n0 :: l ->
        let Node (t0, _) = n0 in
        (match t0 with
         | Nul -> false
         | _ ->
           (match l with
            | [] -> false
            | _ :: l0 -> (match l0 with
                          | [] -> true
                          | _ :: _ -> false))))
   | _ -> false)

(** val mk_bin : sp -> char list -> node -> node -> node **)

let mk_bin s op l r =
  mk KBin s ((nS op) :: (l :: (r :: [])))

(** val mk_assign : sp -> char list -> node -> node -> node **)

let mk_assign s op l r =
  mk KAssign s ((nS op) :: (l :: (r :: [])))

(** val mk_member : sp -> node -> node -> node **)

let mk_member s obj prop =
  mk KMember s (obj :: (prop :: []))

(** val mk_call : sp -> node -> node list -> node **)

let mk_call s callee args =
  mk KCall s (ctxt0 :: (callee :: ((nL args) :: (nNul :: []))))

(** val mk_paren : sp -> node -> node **)

let mk_paren s e =
  mk KParen s (e :: [])

(** val mk_seq : sp -> node list -> node **)

let mk_seq s es =
  mk KSeq s ((nL es) :: [])

(** val mk_cond : sp -> node -> node -> node -> node **)

let mk_cond s t c a =
  mk KCond s (t :: (c :: (a :: [])))

(** val mk_array : sp -> node list -> node **)

let mk_array s elems =
  mk KArray s ((nL elems) :: [])

(** val mk_null : sp -> node **)

let mk_null s =
  mk KNullLit s []

(** val mk_return : sp -> node -> node **)

let mk_return s arg =
  mk KReturn s (arg :: [])

(** val mk_block : sp -> node list -> node **)

let mk_block s stmts =
  mk KBlock s (ctxt0 :: ((nL stmts) :: []))

(** val mk_var_declarator : sp -> node -> node **)

let mk_var_declarator s id =
  mk KVarDeclarator s (id :: (nNul :: ((nB false) :: [])))

(** val mk_let : sp -> node list -> node **)

let mk_let s decls =
  mk KVarDecl s
    (ctxt0 :: ((nS ('l'::('e'::('t'::[])))) :: ((nB false) :: ((nL decls) :: []))))

(** val is_lit_kind : kind -> bool **)

let is_lit_kind = function
| KStr -> true
| KNum -> true
| KBoolLit -> true
| KNullLit -> true
| KRegex -> true
| KBigInt -> true
| KJSXText -> true
| _ -> false

(** val is_lit : node -> bool **)

let is_lit n0 =
  match kind_of n0 with
  | Some k -> is_lit_kind k
  | None -> false

(** val is_ident : node -> bool **)

let is_ident n0 =
  is_kind KIdent n0

(** val is_leaf_kind : kind -> bool **)

let is_leaf_kind k =
  (||) (is_lit_kind k)
    (match k with
     | KTplElem -> true
     | KIdentName -> true
     | KThis -> true
     | KSuper -> true
     | KPrivateName -> true
     | _ -> false)

(** val leaf : node -> bool **)

let leaf = function
| Node (t, _) ->
  (match t with
   | K (k, _, _) -> is_leaf_kind k
   | Obj -> false
   | Lst -> false
   | _ -> true)

(** val gen_DATADOG_VAR_PREFIX : char list **)

let gen_DATADOG_VAR_PREFIX =
  '_'::('_'::('d'::('a'::('t'::('a'::('d'::('o'::('g'::[]))))))))

(** val gen_DD_GLOBAL_NAMESPACE : char list **)

let gen_DD_GLOBAL_NAMESPACE =
  '_'::('d'::('d'::('i'::('a'::('s'::('t'::[]))))))

(** val gen_DD_PLUS_OPERATOR : char list **)

let gen_DD_PLUS_OPERATOR =
  'p'::('l'::('u'::('s'::('O'::('p'::('e'::('r'::('a'::('t'::('o'::('r'::[])))))))))))

(** val gen_DD_TEMPLATE_LITERAL_OPERATOR : char list **)

let gen_DD_TEMPLATE_LITERAL_OPERATOR =
  't'::('p'::('l'::('O'::('p'::('e'::('r'::('a'::('t'::('o'::('r'::[]))))))))))

(** val gen_ADD_TAG : char list **)

let gen_ADD_TAG =
  '+'::[]

(** val gen_ADD_ASSIGN_TAG : char list **)

let gen_ADD_ASSIGN_TAG =
  '+'::('='::[])

(** val gen_TPL_TAG : char list **)

let gen_TPL_TAG =
  'T'::('p'::('l'::[]))

(** val gen_lit_callers : char list list **)

let gen_lit_callers =
  ('c'::('o'::('n'::('c'::('a'::('t'::[])))))) :: (('r'::('e'::('p'::('l'::('a'::('c'::('e'::[]))))))) :: (('r'::('e'::('p'::('l'::('a'::('c'::('e'::('A'::('l'::('l'::[])))))))))) :: (('p'::('a'::('d'::('E'::('n'::('d'::[])))))) :: (('p'::('a'::('d'::('S'::('t'::('a'::('r'::('t'::[])))))))) :: (('r'::('e'::('p'::('e'::('a'::('t'::[])))))) :: [])))))

(** val gen_PROTOTYPE : char list **)

let gen_PROTOTYPE =
  'p'::('r'::('o'::('t'::('o'::('t'::('y'::('p'::('e'::[]))))))))

(** val gen_CALL : char list **)

let gen_CALL =
  'c'::('a'::('l'::('l'::[])))

(** val gen_APPLY : char list **)

let gen_APPLY =
  'a'::('p'::('p'::('l'::('y'::[]))))

(** val gen_min_literal_length : n **)

let gen_min_literal_length =
  Npos (XO (XI (XO XH)))

(** val gen_max_literal_length : n **)

let gen_max_literal_length =
  Npos (XO (XO (XO (XO (XO (XO (XO (XO XH))))))))

(** val gen_len_ok : n -> bool **)

let gen_len_ok len =
  (&&) (N.ltb gen_min_literal_length len) (N.leb len gen_max_literal_length)

(** val gen_REQUIRE : char list **)

let gen_REQUIRE =
  'r'::('e'::('q'::('u'::('i'::('r'::('e'::[]))))))

(** val gen_REGEXP : char list **)

let gen_REGEXP =
  'R'::('e'::('g'::('E'::('x'::('p'::[])))))

(** val gen_prologue_template : char list **)

let gen_prologue_template =
  ';'::('i'::('f'::(' '::('('::('t'::('y'::('p'::('e'::('o'::('f'::(' '::('_'::('d'::('d'::('i'::('a'::('s'::('t'::(' '::('='::('='::('='::(' '::('\''::('u'::('n'::('d'::('e'::('f'::('i'::('n'::('e'::('d'::('\''::(')'::(' '::('('::('f'::('u'::('n'::('c'::('t'::('i'::('o'::('n'::('('::('g'::('l'::('o'::('b'::('a'::('l'::('s'::(')'::('{'::(' '::('c'::('o'::('n'::('s'::('t'::(' '::('n'::('o'::('o'::('p'::(' '::('='::(' '::('('::('r'::('e'::('s'::(')'::(' '::('='::('>'::(' '::('r'::('e'::('s'::(';'::(' '::('g'::('l'::('o'::('b'::('a'::('l'::('s'::('.'::('_'::('d'::('d'::('i'::('a'::('s'::('t'::(' '::('='::(' '::('g'::('l'::('o'::('b'::('a'::('l'::('s'::('.'::('_'::('d'::('d'::('i'::('a'::('s'::('t'::(' '::('|'::('|'::(' '::('{'::(' '::('_'::('_'::('C'::('S'::('I'::('_'::('M'::('E'::('T'::('H'::('O'::('D'::('S'::('_'::('_'::(' '::('}'::(';'::(' '::('}'::('('::('('::('1'::(','::('e'::('v'::('a'::('l'::(')'::('('::('\''::('t'::('h'::('i'::('s'::('\''::(')'::(')'::(')'::(';'::[]))))))))))))))))))))))))))))))))))))))))))))))))))))))))))))))))))))))))))))))))))))))))))))))))))))))))))))))))))))))))))))))))))))))))))))))))))))))))))))))))))

(** val gen_prologue_entry_format : char list **)

let gen_prologue_entry_format =
  '{'::('}'::(':'::(' '::('n'::('o'::('o'::('p'::[])))))))

(** val gen_prologue_join : char list **)

let gen_prologue_join =
  ','::(' '::[])

(** val gen_prologue_placeholder : char list **)

let gen_prologue_placeholder =
  '_'::('_'::('C'::('S'::('I'::('_'::('M'::('E'::('T'::('H'::('O'::('D'::('S'::('_'::('_'::[]))))))))))))))

(** val gen_cancel_format : char list **)

let gen_cancel_format =
  'C'::('a'::('n'::('c'::('e'::('l'::('l'::('i'::('n'::('g'::(' '::('{'::('}'::(' '::('f'::('i'::('l'::('e'::(' '::('r'::('e'::('w'::('r'::('i'::('t'::('e'::('.'::(' '::('R'::('e'::('a'::('s'::('o'::('n'::(':'::(' '::('{'::('}'::[])))))))))))))))))))))))))))))))))))))

(** val gen_cancel_unknown : char list **)

let gen_cancel_unknown =
  'u'::('n'::('k'::('n'::('o'::('w'::('n'::[]))))))

(** val gen_cancel_reason : char list **)

let gen_cancel_reason =
  'V'::('a'::('r'::('i'::('a'::('b'::('l'::('e'::(' '::('n'::('a'::('m'::('e'::(' '::('d'::('u'::('p'::('l'::('i'::('c'::('a'::('t'::('e'::('d'::[])))))))))))))))))))))))

(** val gen_default_chain : bool **)

let gen_default_chain =
  false

(** val gen_default_comments : bool **)

let gen_default_comments =
  false

(** val gen_default_literals : bool **)

let gen_default_literals =
  true

(** val gen_default_prefix_len : n **)

let gen_default_prefix_len =
  Npos (XO (XI XH))

(** val gen_default_operator : bool **)

let gen_default_operator =
  false

(** val gen_default_awc : bool **)

let gen_default_awc =
  false

(** val gen_rnd_alphabet : char list **)

let gen_rnd_alphabet =
  'a'::('b'::('c'::('d'::('e'::('f'::('g'::('h'::('i'::('j'::('k'::('l'::('m'::('n'::('o'::('p'::('q'::('r'::('s'::('t'::('u'::('v'::('w'::('x'::('y'::('z'::[])))))))))))))))))))))))))

(** val gen_verbosity_table : (char list * char list) list **)

let gen_verbosity_table =
  (('O'::('F'::('F'::[]))),
    ('O'::('f'::('f'::[])))) :: ((('M'::('A'::('N'::('D'::('A'::('T'::('O'::('R'::('Y'::[]))))))))),
    ('M'::('a'::('n'::('d'::('a'::('t'::('o'::('r'::('y'::[])))))))))) :: ((('I'::('N'::('F'::('O'::('R'::('M'::('A'::('T'::('I'::('O'::('N'::[]))))))))))),
    ('I'::('n'::('f'::('o'::('r'::('m'::('a'::('t'::('i'::('o'::('n'::[])))))))))))) :: ((('D'::('E'::('B'::('U'::('G'::[]))))),
    ('D'::('e'::('b'::('u'::('g'::[])))))) :: [])))

(** val gen_verbosity_fallback : char list **)

let gen_verbosity_fallback =
  'I'::('n'::('f'::('o'::('r'::('m'::('a'::('t'::('i'::('o'::('n'::[]))))))))))

(** val gen_verbosity_absent : char list **)

let gen_verbosity_absent =
  'I'::('n'::('f'::('o'::('r'::('m'::('a'::('t'::('i'::('o'::('n'::[]))))))))))

(** val gen_verbosity_uppercases : bool **)

let gen_verbosity_uppercases =
  true

type csi_method = { m_src : char list; m_dst : char list; m_operator : 
                    bool; m_awc : bool }

type verbosity =
| VOff
| VMandatory
| VInformation
| VDebug

type config = { c_prefix : char list; c_methods : csi_method list;
                c_lit_callers : char list list; c_verbosity : verbosity;
                c_literals : bool; c_chain : bool; c_comments : bool;
                c_prefix_stmts : node list }

(** val find_operator : char list -> csi_method list -> csi_method option **)

let find_operator name ms =
  find (fun m -> (&&) m.m_operator (eqb1 m.m_src name)) ms

(** val plus_operator : config -> csi_method option **)

let plus_operator c =
  find_operator gen_DD_PLUS_OPERATOR c.c_methods

(** val tpl_operator : config -> csi_method option **)

let tpl_operator c =
  find_operator gen_DD_TEMPLATE_LITERAL_OPERATOR c.c_methods

(** val plus_enabled : config -> bool **)

let plus_enabled c =
  match plus_operator c with
  | Some _ -> true
  | None -> false

(** val tpl_enabled : config -> bool **)

let tpl_enabled c =
  match tpl_operator c with
  | Some _ -> true
  | None -> false

(** val plus_name : config -> char list **)

let plus_name c =
  match plus_operator c with
  | Some m -> m.m_dst
  | None -> gen_DD_PLUS_OPERATOR

(** val tpl_name : config -> char list **)

let tpl_name c =
  match tpl_operator c with
  | Some m -> m.m_dst
  | None -> gen_DD_TEMPLATE_LITERAL_OPERATOR

(** val csi_get : config -> char list -> csi_method option **)

let csi_get c name =
  find (fun m -> (&&) (negb m.m_operator) (eqb1 m.m_src name)) c.c_methods

(** val allows_literal_callers : config -> char list -> bool **)

let allows_literal_callers c name =
  existsb (eqb1 name) c.c_lit_callers

(** val var_prefix : config -> char list **)

let var_prefix c =
  append gen_DATADOG_VAR_PREFIX
    (append ('_'::[]) (append c.c_prefix ('_'::[])))

type raw_method = { rm_src : char list; rm_dst : char list option;
                    rm_operator : bool option; rm_awc : bool option }

type raw_config = { r_chain : bool option; r_comments : bool option;
                    r_prefix : char list option;
                    r_methods_opt : raw_method list option;
                    r_verbosity : char list option; r_literals : bool option }

(** val r_methods : raw_config -> raw_method list **)

let r_methods r =
  match r.r_methods_opt with
  | Some l -> l
  | None -> []

(** val opt_default : 'a1 -> 'a1 option -> 'a1 **)

let opt_default d = function
| Some x -> x
| None -> d

(** val method_of_raw : raw_method -> csi_method **)

let method_of_raw m =
  { m_src = m.rm_src; m_dst = (opt_default m.rm_src m.rm_dst); m_operator =
    (opt_default gen_default_operator m.rm_operator); m_awc =
    (opt_default gen_default_awc m.rm_awc) }

(** val nth_char : char list -> nat -> char **)

let nth_char s i =
  match get i s with
  | Some ch -> ch
  | None -> 'a'

(** val rnd_chars : (nat -> nat) -> char list -> nat -> nat -> char list **)

let rec rnd_chars rnd alphabet i = function
| O -> []
| S n' ->
  (nth_char alphabet (Nat.modulo (rnd i) (length0 alphabet)))::(rnd_chars rnd
                                                                 alphabet (S
                                                                 i) n')

(** val rnd_string : (nat -> nat) -> nat -> char list **)

let rnd_string rnd len =
  rnd_chars rnd gen_rnd_alphabet O len

(** val upper_ascii : char -> char **)

let upper_ascii ch =
  let n0 = nat_of_ascii ch in
  if (&&)
       (Nat.leb (S (S (S (S (S (S (S (S (S (S (S (S (S (S (S (S (S (S (S (S
         (S (S (S (S (S (S (S (S (S (S (S (S (S (S (S (S (S (S (S (S (S (S (S
         (S (S (S (S (S (S (S (S (S (S (S (S (S (S (S (S (S (S (S (S (S (S (S
         (S (S (S (S (S (S (S (S (S (S (S (S (S (S (S (S (S (S (S (S (S (S (S
         (S (S (S (S (S (S (S (S
         O)))))))))))))))))))))))))))))))))))))))))))))))))))))))))))))))))))))))))))))))))))))))))))))))))
         n0)
       (Nat.leb n0 (S (S (S (S (S (S (S (S (S (S (S (S (S (S (S (S (S (S (S
         (S (S (S (S (S (S (S (S (S (S (S (S (S (S (S (S (S (S (S (S (S (S (S
         (S (S (S (S (S (S (S (S (S (S (S (S (S (S (S (S (S (S (S (S (S (S (S
         (S (S (S (S (S (S (S (S (S (S (S (S (S (S (S (S (S (S (S (S (S (S (S
         (S (S (S (S (S (S (S (S (S (S (S (S (S (S (S (S (S (S (S (S (S (S (S
         (S (S (S (S (S (S (S (S (S (S (S
         O)))))))))))))))))))))))))))))))))))))))))))))))))))))))))))))))))))))))))))))))))))))))))))))))))))))))))))))))))))))))))))
  then ascii_of_nat
         (sub n0 (S (S (S (S (S (S (S (S (S (S (S (S (S (S (S (S (S (S (S (S
           (S (S (S (S (S (S (S (S (S (S (S (S
           O)))))))))))))))))))))))))))))))))
  else ch

(** val upper : char list -> char list **)

let rec upper = function
| [] -> []
| ch::r -> (upper_ascii ch)::(upper r)

(** val verbosity_of_name : char list -> verbosity **)

let verbosity_of_name s =
  if eqb1 s ('O'::('f'::('f'::[])))
  then VOff
  else if eqb1 s
            ('M'::('a'::('n'::('d'::('a'::('t'::('o'::('r'::('y'::[])))))))))
       then VMandatory
       else if eqb1 s ('D'::('e'::('b'::('u'::('g'::[])))))
            then VDebug
            else VInformation

(** val assoc_string :
    char list -> (char list * char list) list -> char list option **)

let rec assoc_string k = function
| [] -> None
| p :: t' -> let (a, b) = p in if eqb1 k a then Some b else assoc_string k t'

(** val parse_verbosity : char list option -> verbosity **)

let parse_verbosity = function
| Some v ->
  let key = if gen_verbosity_uppercases then upper v else v in
  (match assoc_string key gen_verbosity_table with
   | Some name -> verbosity_of_name name
   | None -> verbosity_of_name gen_verbosity_fallback)
| None -> verbosity_of_name gen_verbosity_absent

(** val join : char list -> char list list -> char list **)

let rec join sep = function
| [] -> []
| x :: r ->
  (match r with
   | [] -> x
   | _ :: _ -> append x (append sep (join sep r)))

(** val replace_first : char list -> char list -> char list -> char list **)

let rec replace_first pat repl s =
  if prefix pat s
  then append repl (substring (length0 pat) (sub (length0 s) (length0 pat)) s)
  else (match s with
        | [] -> []
        | ch::r -> ch::(replace_first pat repl r))

(** val subst1 : char list -> char list -> char list **)

let rec subst1 fmt arg =
  match fmt with
  | [] -> []
  | ch::rest ->
    (* If this appears, you're using Ascii internals. Please don't *)
 (fun f c ->
  let n = Char.code c in
  let h i = (n land (1 lsl i)) <> 0 in
  f (h 0) (h 1) (h 2) (h 3) (h 4) (h 5) (h 6) (h 7))
      (fun b b0 b1 b2 b3 b4 b5 b6 ->
      if b
      then if b0
           then if b1
                then ch::(subst1 rest arg)
                else if b2
                     then if b3
                          then if b4
                               then if b5
                                    then if b6
                                         then ch::(subst1 rest arg)
                                         else (match rest with
                                               | [] -> ch::(subst1 rest arg)
                                               | a::rest0 ->
                                                 (* If this appears, you're using Ascii internals. Please don't *)
 (fun f c ->
  let n = Char.code c in
  let h i = (n land (1 lsl i)) <> 0 in
  f (h 0) (h 1) (h 2) (h 3) (h 4) (h 5) (h 6) (h 7))
                                                   (fun b7 b8 b9 b10 b11 b12 b13 b14 ->
                                                   if b7
                                                   then if b8
                                                        then ch::(subst1 rest
                                                                   arg)
                                                        else if b9
                                                             then if b10
                                                                  then 
                                                                    if b11
                                                                    then 
                                                                    if b12
                                                                    then 
                                                                    if b13
                                                                    then 
                                                                    if b14
                                                                    then 
                                                                    ch::
                                                                    (subst1
                                                                    rest arg)
                                                                    else 
                                                                    append
                                                                    arg rest0
                                                                    else 
                                                                    ch::
                                                                    (subst1
                                                                    rest arg)
                                                                    else 
                                                                    ch::
                                                                    (subst1
                                                                    rest arg)
                                                                    else 
                                                                    ch::
                                                                    (subst1
                                                                    rest arg)
                                                                  else 
                                                                    ch::
                                                                    (subst1
                                                                    rest arg)
                                                             else ch::
                                                                    (subst1
                                                                    rest arg)
                                                   else ch::(subst1 rest arg))
                                                   a)
                                    else ch::(subst1 rest arg)
                               else ch::(subst1 rest arg)
                          else ch::(subst1 rest arg)
                     else ch::(subst1 rest arg)
           else ch::(subst1 rest arg)
      else ch::(subst1 rest arg))
      ch

(** val prologue_text : csi_method list -> char list **)

let prologue_text methods =
  replace_first gen_prologue_placeholder
    (join gen_prologue_join
      (map (fun m -> subst1 gen_prologue_entry_format m.m_dst) methods))
    gen_prologue_template

(** val to_config_with :
    (char list -> node list) -> (nat -> nat) -> raw_config -> config **)

let to_config_with parse_prologue rnd r =
  let methods = map method_of_raw (r_methods r) in
  { c_prefix =
  (match r.r_prefix with
   | Some p -> p
   | None -> rnd_string rnd (N.to_nat gen_default_prefix_len)); c_methods =
  methods; c_lit_callers =
  (match r.r_methods_opt with
   | Some _ -> gen_lit_callers
   | None -> []); c_verbosity = (parse_verbosity r.r_verbosity); c_literals =
  (opt_default gen_default_literals r.r_literals); c_chain =
  (opt_default gen_default_chain r.r_chain); c_comments =
  (opt_default gen_default_comments r.r_comments); c_prefix_stmts =
  (parse_prologue (prologue_text methods)) }

(** val to_config : (nat -> nat) -> raw_config -> config **)

let to_config rnd r =
  to_config_with (fun _ -> []) rnd r

type pos = n * n

(** val ple : pos -> pos -> bool **)

let ple a b =
  (||) (N.ltb (fst a) (fst b))
    ((&&) (N.eqb (fst a) (fst b)) (N.leb (snd a) (snd b)))

(** val plt : pos -> pos -> bool **)

let plt a b =
  (||) (N.ltb (fst a) (fst b))
    ((&&) (N.eqb (fst a) (fst b)) (N.ltb (snd a) (snd b)))

type 'a token = pos * 'a

(** val lookup_from :
    'a1 token option -> 'a1 token list -> pos -> 'a1 token option **)

let rec lookup_from acc1 m p =
  match m with
  | [] -> acc1
  | t :: m' -> lookup_from (if ple (fst t) p then Some t else acc1) m' p

(** val lookup : 'a1 token list -> pos -> 'a1 token option **)

let lookup m p =
  lookup_from None m p

(** val find_loop : nat -> 'a1 token list -> nat -> nat -> pos -> nat **)

let rec find_loop fuel m first count p =
  match fuel with
  | O -> first
  | S f ->
    if Nat.leb count (S O)
    then first
    else let step = Nat.div2 count in
         let middle = add first step in
         (match nth_error m middle with
          | Some mp ->
            if plt p (fst mp)
            then find_loop f m first step p
            else find_loop f m middle (sub count step) p
          | None -> first)

(** val find_entry : 'a1 token list -> pos -> 'a1 token option **)

let find_entry m p =
  let first = find_loop (length m) m O (length m) p in
  (match nth_error m first with
   | Some e -> if (&&) (Nat.eqb first O) (plt p (fst e)) then None else Some e
   | None -> None)

(** val chain : pos token list -> 'a1 token list -> 'a1 token list **)

let chain m1 m2 =
  flat_map (fun t ->
    match lookup m2 (snd t) with
    | Some o -> ((fst t), (snd o)) :: []
    | None -> []) m1

(** val b64_alphabet : char list **)

let b64_alphabet =
  'A'::('B'::('C'::('D'::('E'::('F'::('G'::('H'::('I'::('J'::('K'::('L'::('M'::('N'::('O'::('P'::('Q'::('R'::('S'::('T'::('U'::('V'::('W'::('X'::('Y'::('Z'::('a'::('b'::('c'::('d'::('e'::('f'::('g'::('h'::('i'::('j'::('k'::('l'::('m'::('n'::('o'::('p'::('q'::('r'::('s'::('t'::('u'::('v'::('w'::('x'::('y'::('z'::('0'::('1'::('2'::('3'::('4'::('5'::('6'::('7'::('8'::('9'::('+'::('/'::[])))))))))))))))))))))))))))))))))))))))))))))))))))))))))))))))

(** val index_of : char -> char list -> n -> n option **)

let rec index_of ch s i =
  match s with
  | [] -> None
  | c::r -> if (=) c ch then Some i else index_of ch r (N.succ i)

(** val b64_digit : char -> n option **)

let b64_digit ch =
  index_of ch b64_alphabet N0

(** val b64_char : n -> char **)

let b64_char d =
  match get (N.to_nat d) b64_alphabet with
  | Some c -> c
  | None -> 'A'

(** val zigzag : z -> n **)

let zigzag z0 =
  if Z.ltb z0 Z0
  then N.succ (N.mul (Npos (XO XH)) (Z.to_N (Z.opp z0)))
  else N.mul (Npos (XO XH)) (Z.to_N z0)

(** val unzigzag : n -> z **)

let unzigzag n0 =
  if N.odd n0 then Z.opp (Z.of_N (N.div2 n0)) else Z.of_N (N.div2 n0)

(** val digits : nat -> n -> n list **)

let rec digits fuel n0 =
  match fuel with
  | O -> (N.modulo n0 (Npos (XO (XO (XO (XO (XO XH))))))) :: []
  | S f ->
    if N.ltb n0 (Npos (XO (XO (XO (XO (XO XH))))))
    then n0 :: []
    else (N.add (N.modulo n0 (Npos (XO (XO (XO (XO (XO XH))))))) (Npos (XO
           (XO (XO (XO (XO XH))))))) :: (digits f
                                          (N.div n0 (Npos (XO (XO (XO (XO (XO
                                            XH))))))))

(** val vlq_digits : z -> n list **)

let vlq_digits z0 =
  let n0 = zigzag z0 in digits (N.size_nat n0) n0

(** val undigits : n list -> (n * n list) option **)

let rec undigits = function
| [] -> None
| d :: rest ->
  if N.ltb d (Npos (XO (XO (XO (XO (XO XH))))))
  then Some (d, rest)
  else (match undigits rest with
        | Some p ->
          let (hi, rest') = p in
          Some
          ((N.add (N.sub d (Npos (XO (XO (XO (XO (XO XH)))))))
             (N.mul (Npos (XO (XO (XO (XO (XO XH)))))) hi)), rest')
        | None -> None)

(** val vlq_decode_digits : n list -> (z * n list) option **)

let vlq_decode_digits ds =
  match undigits ds with
  | Some p -> let (n0, rest) = p in Some ((unzigzag n0), rest)
  | None -> None

(** val vlq_encode : z -> char list **)

let vlq_encode z0 =
  string_of_list_ascii (map b64_char (vlq_digits z0))

(** val b64_prefix : char list -> n list * char list **)

let rec b64_prefix s = match s with
| [] -> ([], [])
| c::r ->
  (match b64_digit c with
   | Some d -> let (ds, rest) = b64_prefix r in ((d :: ds), rest)
   | None -> ([], s))

(** val vlq_all : nat -> n list -> z list option **)

let rec vlq_all fuel ds =
  match fuel with
  | O -> None
  | S f ->
    (match ds with
     | [] -> Some []
     | _ :: _ ->
       (match vlq_decode_digits ds with
        | Some p ->
          let (z0, rest) = p in
          (match vlq_all f rest with
           | Some zs -> Some (z0 :: zs)
           | None -> None)
        | None -> None))

type raw_token = { rt_gl : n; rt_gc : z; rt_src : ((z * z) * z) option;
                   rt_name : z option }

type dstate = { d_line : n; d_col : z; d_src : z; d_sl : z; d_sc : z;
                d_name : z }

(** val decode_mappings_from :
    nat -> char list -> dstate -> raw_token list option **)

let rec decode_mappings_from fuel s st =
  match fuel with
  | O -> None
  | S f ->
    (match s with
     | [] -> Some []
     | a::r ->
       (* If this appears, you're using Ascii internals. Please don't *)
 (fun f c ->
  let n = Char.code c in
  let h i = (n land (1 lsl i)) <> 0 in
  f (h 0) (h 1) (h 2) (h 3) (h 4) (h 5) (h 6) (h 7))
         (fun b b0 b1 b2 b3 b4 b5 b6 ->
         if b
         then if b0
              then if b1
                   then let (ds, rest) = b64_prefix s in
                        (match vlq_all (S (length ds)) ds with
                         | Some l ->
                           (match l with
                            | [] -> None
                            | c :: l0 ->
                              (match l0 with
                               | [] ->
                                 let st' = { d_line = st.d_line; d_col =
                                   (Z.add st.d_col c); d_src = st.d_src;
                                   d_sl = st.d_sl; d_sc = st.d_sc; d_name =
                                   st.d_name }
                                 in
                                 (match decode_mappings_from f rest st' with
                                  | Some ts ->
                                    Some ({ rt_gl = st'.d_line; rt_gc =
                                      st'.d_col; rt_src = None; rt_name =
                                      None } :: ts)
                                  | None -> None)
                               | si :: l1 ->
                                 (match l1 with
                                  | [] -> None
                                  | sl :: l2 ->
                                    (match l2 with
                                     | [] -> None
                                     | sc :: l3 ->
                                       (match l3 with
                                        | [] ->
                                          let st' = { d_line = st.d_line;
                                            d_col = (Z.add st.d_col c);
                                            d_src = (Z.add st.d_src si);
                                            d_sl = (Z.add st.d_sl sl); d_sc =
                                            (Z.add st.d_sc sc); d_name =
                                            st.d_name }
                                          in
                                          (match decode_mappings_from f rest
                                                   st' with
                                           | Some ts ->
                                             Some ({ rt_gl = st'.d_line;
                                               rt_gc = st'.d_col; rt_src =
                                               (Some ((st'.d_src, st'.d_sl),
                                               st'.d_sc)); rt_name =
                                               None } :: ts)
                                           | None -> None)
                                        | ni :: l4 ->
                                          (match l4 with
                                           | [] ->
                                             let st' = { d_line = st.d_line;
                                               d_col = (Z.add st.d_col c);
                                               d_src = (Z.add st.d_src si);
                                               d_sl = (Z.add st.d_sl sl);
                                               d_sc = (Z.add st.d_sc sc);
                                               d_name = (Z.add st.d_name ni) }
                                             in
                                             (match decode_mappings_from f
                                                      rest st' with
                                              | Some ts ->
                                                Some ({ rt_gl = st'.d_line;
                                                  rt_gc = st'.d_col; rt_src =
                                                  (Some ((st'.d_src,
                                                  st'.d_sl), st'.d_sc));
                                                  rt_name = (Some
                                                  st'.d_name) } :: ts)
                                              | None -> None)
                                           | _ :: _ -> None))))))
                         | None -> None)
                   else if b2
                        then if b3
                             then if b4
                                  then if b5
                                       then let (ds, rest) = b64_prefix s in
                                            (match vlq_all (S (length ds)) ds with
                                             | Some l ->
                                               (match l with
                                                | [] -> None
                                                | c :: l0 ->
                                                  (match l0 with
                                                   | [] ->
                                                     let st' = { d_line =
                                                       st.d_line; d_col =
                                                       (Z.add st.d_col c);
                                                       d_src = st.d_src;
                                                       d_sl = st.d_sl; d_sc =
                                                       st.d_sc; d_name =
                                                       st.d_name }
                                                     in
                                                     (match decode_mappings_from
                                                              f rest st' with
                                                      | Some ts ->
                                                        Some ({ rt_gl =
                                                          st'.d_line; rt_gc =
                                                          st'.d_col; rt_src =
                                                          None; rt_name =
                                                          None } :: ts)
                                                      | None -> None)
                                                   | si :: l1 ->
                                                     (match l1 with
                                                      | [] -> None
                                                      | sl :: l2 ->
                                                        (match l2 with
                                                         | [] -> None
                                                         | sc :: l3 ->
                                                           (match l3 with
                                                            | [] ->
                                                              let st' =
                                                                { d_line =
                                                                st.d_line;
                                                                d_col =
                                                                (Z.add
                                                                  st.d_col c);
                                                                d_src =
                                                                (Z.add
                                                                  st.d_src si);
                                                                d_sl =
                                                                (Z.add
                                                                  st.d_sl sl);
                                                                d_sc =
                                                                (Z.add
                                                                  st.d_sc sc);
                                                                d_name =
                                                                st.d_name }
                                                              in
                                                              (match 
                                                               decode_mappings_from
                                                                 f rest st' with
                                                               | Some ts ->
                                                                 Some
                                                                   ({ rt_gl =
                                                                   st'.d_line;
                                                                   rt_gc =
                                                                   st'.d_col;
                                                                   rt_src =
                                                                   (Some
                                                                   ((st'.d_src,
                                                                   st'.d_sl),
                                                                   st'.d_sc));
                                                                   rt_name =
                                                                   None } :: ts)
                                                               | None -> None)
                                                            | ni :: l4 ->
                                                              (match l4 with
                                                               | [] ->
                                                                 let st' =
                                                                   { d_line =
                                                                   st.d_line;
                                                                   d_col =
                                                                   (Z.add
                                                                    st.d_col
                                                                    c);
                                                                   d_src =
                                                                   (Z.add
                                                                    st.d_src
                                                                    si);
                                                                   d_sl =
                                                                   (Z.add
                                                                    st.d_sl
                                                                    sl);
                                                                   d_sc =
                                                                   (Z.add
                                                                    st.d_sc
                                                                    sc);
                                                                   d_name =
                                                                   (Z.add
                                                                    st.d_name
                                                                    ni) }
                                                                 in
                                                                 (match 
                                                                  decode_mappings_from
                                                                    f rest st' with
                                                                  | Some ts ->
                                                                    Some
                                                                    ({ rt_gl =
                                                                    st'.d_line;
                                                                    rt_gc =
                                                                    st'.d_col;
                                                                    rt_src =
                                                                    (Some
                                                                    ((st'.d_src,
                                                                    st'.d_sl),
                                                                    st'.d_sc));
                                                                    rt_name =
                                                                    (Some
                                                                    st'.d_name) } :: ts)
                                                                  | None ->
                                                                    None)
                                                               | _ :: _ ->
                                                                 None))))))
                                             | None -> None)
                                       else if b6
                                            then let (ds, rest) = b64_prefix s
                                                 in
                                                 (match vlq_all (S
                                                          (length ds)) ds with
                                                  | Some l ->
                                                    (match l with
                                                     | [] -> None
                                                     | c :: l0 ->
                                                       (match l0 with
                                                        | [] ->
                                                          let st' =
                                                            { d_line =
                                                            st.d_line;
                                                            d_col =
                                                            (Z.add st.d_col c);
                                                            d_src = st.d_src;
                                                            d_sl = st.d_sl;
                                                            d_sc = st.d_sc;
                                                            d_name =
                                                            st.d_name }
                                                          in
                                                          (match decode_mappings_from
                                                                   f rest st' with
                                                           | Some ts ->
                                                             Some ({ rt_gl =
                                                               st'.d_line;
                                                               rt_gc =
                                                               st'.d_col;
                                                               rt_src = None;
                                                               rt_name =
                                                               None } :: ts)
                                                           | None -> None)
                                                        | si :: l1 ->
                                                          (match l1 with
                                                           | [] -> None
                                                           | sl :: l2 ->
                                                             (match l2 with
                                                              | [] -> None
                                                              | sc :: l3 ->
                                                                (match l3 with
                                                                 | [] ->
                                                                   let st' =
                                                                    { d_line =
                                                                    st.d_line;
                                                                    d_col =
                                                                    (Z.add
                                                                    st.d_col
                                                                    c);
                                                                    d_src =
                                                                    (Z.add
                                                                    st.d_src
                                                                    si);
                                                                    d_sl =
                                                                    (Z.add
                                                                    st.d_sl
                                                                    sl);
                                                                    d_sc =
                                                                    (Z.add
                                                                    st.d_sc
                                                                    sc);
                                                                    d_name =
                                                                    st.d_name }
                                                                   in
                                                                   (match 
                                                                    decode_mappings_from
                                                                    f rest st' with
                                                                    | Some ts ->
                                                                    Some
                                                                    ({ rt_gl =
                                                                    st'.d_line;
                                                                    rt_gc =
                                                                    st'.d_col;
                                                                    rt_src =
                                                                    (Some
                                                                    ((st'.d_src,
                                                                    st'.d_sl),
                                                                    st'.d_sc));
                                                                    rt_name =
                                                                    None } :: ts)
                                                                    | None ->
                                                                    None)
                                                                 | ni :: l4 ->
                                                                   (match l4 with
                                                                    | [] ->
                                                                    let st' =
                                                                    { d_line =
                                                                    st.d_line;
                                                                    d_col =
                                                                    (Z.add
                                                                    st.d_col
                                                                    c);
                                                                    d_src =
                                                                    (Z.add
                                                                    st.d_src
                                                                    si);
                                                                    d_sl =
                                                                    (Z.add
                                                                    st.d_sl
                                                                    sl);
                                                                    d_sc =
                                                                    (Z.add
                                                                    st.d_sc
                                                                    sc);
                                                                    d_name =
                                                                    (Z.add
                                                                    st.d_name
                                                                    ni) }
                                                                    in
                                                                    (
                                                                    match 
                                                                    decode_mappings_from
                                                                    f rest st' with
                                                                    | Some ts ->
                                                                    Some
                                                                    ({ rt_gl =
                                                                    st'.d_line;
                                                                    rt_gc =
                                                                    st'.d_col;
                                                                    rt_src =
                                                                    (Some
                                                                    ((st'.d_src,
                                                                    st'.d_sl),
                                                                    st'.d_sc));
                                                                    rt_name =
                                                                    (Some
                                                                    st'.d_name) } :: ts)
                                                                    | None ->
                                                                    None)
                                                                    | _ :: _ ->
                                                                    None))))))
                                                  | None -> None)
                                            else decode_mappings_from f r
                                                   { d_line =
                                                   (N.succ st.d_line);
                                                   d_col = Z0; d_src =
                                                   st.d_src; d_sl = st.d_sl;
                                                   d_sc = st.d_sc; d_name =
                                                   st.d_name }
                                  else let (ds, rest) = b64_prefix s in
                                       (match vlq_all (S (length ds)) ds with
                                        | Some l ->
                                          (match l with
                                           | [] -> None
                                           | c :: l0 ->
                                             (match l0 with
                                              | [] ->
                                                let st' = { d_line =
                                                  st.d_line; d_col =
                                                  (Z.add st.d_col c); d_src =
                                                  st.d_src; d_sl = st.d_sl;
                                                  d_sc = st.d_sc; d_name =
                                                  st.d_name }
                                                in
                                                (match decode_mappings_from f
                                                         rest st' with
                                                 | Some ts ->
                                                   Some ({ rt_gl =
                                                     st'.d_line; rt_gc =
                                                     st'.d_col; rt_src =
                                                     None; rt_name =
                                                     None } :: ts)
                                                 | None -> None)
                                              | si :: l1 ->
                                                (match l1 with
                                                 | [] -> None
                                                 | sl :: l2 ->
                                                   (match l2 with
                                                    | [] -> None
                                                    | sc :: l3 ->
                                                      (match l3 with
                                                       | [] ->
                                                         let st' = { d_line =
                                                           st.d_line; d_col =
                                                           (Z.add st.d_col c);
                                                           d_src =
                                                           (Z.add st.d_src si);
                                                           d_sl =
                                                           (Z.add st.d_sl sl);
                                                           d_sc =
                                                           (Z.add st.d_sc sc);
                                                           d_name =
                                                           st.d_name }
                                                         in
                                                         (match decode_mappings_from
                                                                  f rest st' with
                                                          | Some ts ->
                                                            Some ({ rt_gl =
                                                              st'.d_line;
                                                              rt_gc =
                                                              st'.d_col;
                                                              rt_src = (Some
                                                              ((st'.d_src,
                                                              st'.d_sl),
                                                              st'.d_sc));
                                                              rt_name =
                                                              None } :: ts)
                                                          | None -> None)
                                                       | ni :: l4 ->
                                                         (match l4 with
                                                          | [] ->
                                                            let st' =
                                                              { d_line =
                                                              st.d_line;
                                                              d_col =
                                                              (Z.add st.d_col
                                                                c); d_src =
                                                              (Z.add st.d_src
                                                                si); d_sl =
                                                              (Z.add st.d_sl
                                                                sl); d_sc =
                                                              (Z.add st.d_sc
                                                                sc); d_name =
                                                              (Z.add
                                                                st.d_name ni) }
                                                            in
                                                            (match decode_mappings_from
                                                                    f rest st' with
                                                             | Some ts ->
                                                               Some
                                                                 ({ rt_gl =
                                                                 st'.d_line;
                                                                 rt_gc =
                                                                 st'.d_col;
                                                                 rt_src =
                                                                 (Some
                                                                 ((st'.d_src,
                                                                 st'.d_sl),
                                                                 st'.d_sc));
                                                                 rt_name =
                                                                 (Some
                                                                 st'.d_name) } :: ts)
                                                             | None -> None)
                                                          | _ :: _ -> None))))))
                                        | None -> None)
                             else let (ds, rest) = b64_prefix s in
                                  (match vlq_all (S (length ds)) ds with
                                   | Some l ->
                                     (match l with
                                      | [] -> None
                                      | c :: l0 ->
                                        (match l0 with
                                         | [] ->
                                           let st' = { d_line = st.d_line;
                                             d_col = (Z.add st.d_col c);
                                             d_src = st.d_src; d_sl =
                                             st.d_sl; d_sc = st.d_sc;
                                             d_name = st.d_name }
                                           in
                                           (match decode_mappings_from f rest
                                                    st' with
                                            | Some ts ->
                                              Some ({ rt_gl = st'.d_line;
                                                rt_gc = st'.d_col; rt_src =
                                                None; rt_name = None } :: ts)
                                            | None -> None)
                                         | si :: l1 ->
                                           (match l1 with
                                            | [] -> None
                                            | sl :: l2 ->
                                              (match l2 with
                                               | [] -> None
                                               | sc :: l3 ->
                                                 (match l3 with
                                                  | [] ->
                                                    let st' = { d_line =
                                                      st.d_line; d_col =
                                                      (Z.add st.d_col c);
                                                      d_src =
                                                      (Z.add st.d_src si);
                                                      d_sl =
                                                      (Z.add st.d_sl sl);
                                                      d_sc =
                                                      (Z.add st.d_sc sc);
                                                      d_name = st.d_name }
                                                    in
                                                    (match decode_mappings_from
                                                             f rest st' with
                                                     | Some ts ->
                                                       Some ({ rt_gl =
                                                         st'.d_line; rt_gc =
                                                         st'.d_col; rt_src =
                                                         (Some ((st'.d_src,
                                                         st'.d_sl),
                                                         st'.d_sc));
                                                         rt_name =
                                                         None } :: ts)
                                                     | None -> None)
                                                  | ni :: l4 ->
                                                    (match l4 with
                                                     | [] ->
                                                       let st' = { d_line =
                                                         st.d_line; d_col =
                                                         (Z.add st.d_col c);
                                                         d_src =
                                                         (Z.add st.d_src si);
                                                         d_sl =
                                                         (Z.add st.d_sl sl);
                                                         d_sc =
                                                         (Z.add st.d_sc sc);
                                                         d_name =
                                                         (Z.add st.d_name ni) }
                                                       in
                                                       (match decode_mappings_from
                                                                f rest st' with
                                                        | Some ts ->
                                                          Some ({ rt_gl =
                                                            st'.d_line;
                                                            rt_gc =
                                                            st'.d_col;
                                                            rt_src = (Some
                                                            ((st'.d_src,
                                                            st'.d_sl),
                                                            st'.d_sc));
                                                            rt_name = (Some
                                                            st'.d_name) } :: ts)
                                                        | None -> None)
                                                     | _ :: _ -> None))))))
                                   | None -> None)
                        else let (ds, rest) = b64_prefix s in
                             (match vlq_all (S (length ds)) ds with
                              | Some l ->
                                (match l with
                                 | [] -> None
                                 | c :: l0 ->
                                   (match l0 with
                                    | [] ->
                                      let st' = { d_line = st.d_line; d_col =
                                        (Z.add st.d_col c); d_src = st.d_src;
                                        d_sl = st.d_sl; d_sc = st.d_sc;
                                        d_name = st.d_name }
                                      in
                                      (match decode_mappings_from f rest st' with
                                       | Some ts ->
                                         Some ({ rt_gl = st'.d_line; rt_gc =
                                           st'.d_col; rt_src = None;
                                           rt_name = None } :: ts)
                                       | None -> None)
                                    | si :: l1 ->
                                      (match l1 with
                                       | [] -> None
                                       | sl :: l2 ->
                                         (match l2 with
                                          | [] -> None
                                          | sc :: l3 ->
                                            (match l3 with
                                             | [] ->
                                               let st' = { d_line =
                                                 st.d_line; d_col =
                                                 (Z.add st.d_col c); d_src =
                                                 (Z.add st.d_src si); d_sl =
                                                 (Z.add st.d_sl sl); d_sc =
                                                 (Z.add st.d_sc sc); d_name =
                                                 st.d_name }
                                               in
                                               (match decode_mappings_from f
                                                        rest st' with
                                                | Some ts ->
                                                  Some ({ rt_gl = st'.d_line;
                                                    rt_gc = st'.d_col;
                                                    rt_src = (Some
                                                    ((st'.d_src, st'.d_sl),
                                                    st'.d_sc)); rt_name =
                                                    None } :: ts)
                                                | None -> None)
                                             | ni :: l4 ->
                                               (match l4 with
                                                | [] ->
                                                  let st' = { d_line =
                                                    st.d_line; d_col =
                                                    (Z.add st.d_col c);
                                                    d_src =
                                                    (Z.add st.d_src si);
                                                    d_sl =
                                                    (Z.add st.d_sl sl);
                                                    d_sc =
                                                    (Z.add st.d_sc sc);
                                                    d_name =
                                                    (Z.add st.d_name ni) }
                                                  in
                                                  (match decode_mappings_from
                                                           f rest st' with
                                                   | Some ts ->
                                                     Some ({ rt_gl =
                                                       st'.d_line; rt_gc =
                                                       st'.d_col; rt_src =
                                                       (Some ((st'.d_src,
                                                       st'.d_sl), st'.d_sc));
                                                       rt_name = (Some
                                                       st'.d_name) } :: ts)
                                                   | None -> None)
                                                | _ :: _ -> None))))))
                              | None -> None)
              else let (ds, rest) = b64_prefix s in
                   (match vlq_all (S (length ds)) ds with
                    | Some l ->
                      (match l with
                       | [] -> None
                       | c :: l0 ->
                         (match l0 with
                          | [] ->
                            let st' = { d_line = st.d_line; d_col =
                              (Z.add st.d_col c); d_src = st.d_src; d_sl =
                              st.d_sl; d_sc = st.d_sc; d_name = st.d_name }
                            in
                            (match decode_mappings_from f rest st' with
                             | Some ts ->
                               Some ({ rt_gl = st'.d_line; rt_gc = st'.d_col;
                                 rt_src = None; rt_name = None } :: ts)
                             | None -> None)
                          | si :: l1 ->
                            (match l1 with
                             | [] -> None
                             | sl :: l2 ->
                               (match l2 with
                                | [] -> None
                                | sc :: l3 ->
                                  (match l3 with
                                   | [] ->
                                     let st' = { d_line = st.d_line; d_col =
                                       (Z.add st.d_col c); d_src =
                                       (Z.add st.d_src si); d_sl =
                                       (Z.add st.d_sl sl); d_sc =
                                       (Z.add st.d_sc sc); d_name =
                                       st.d_name }
                                     in
                                     (match decode_mappings_from f rest st' with
                                      | Some ts ->
                                        Some ({ rt_gl = st'.d_line; rt_gc =
                                          st'.d_col; rt_src = (Some
                                          ((st'.d_src, st'.d_sl), st'.d_sc));
                                          rt_name = None } :: ts)
                                      | None -> None)
                                   | ni :: l4 ->
                                     (match l4 with
                                      | [] ->
                                        let st' = { d_line = st.d_line;
                                          d_col = (Z.add st.d_col c); d_src =
                                          (Z.add st.d_src si); d_sl =
                                          (Z.add st.d_sl sl); d_sc =
                                          (Z.add st.d_sc sc); d_name =
                                          (Z.add st.d_name ni) }
                                        in
                                        (match decode_mappings_from f rest st' with
                                         | Some ts ->
                                           Some ({ rt_gl = st'.d_line;
                                             rt_gc = st'.d_col; rt_src =
                                             (Some ((st'.d_src, st'.d_sl),
                                             st'.d_sc)); rt_name = (Some
                                             st'.d_name) } :: ts)
                                         | None -> None)
                                      | _ :: _ -> None))))))
                    | None -> None)
         else if b0
              then let (ds, rest) = b64_prefix s in
                   (match vlq_all (S (length ds)) ds with
                    | Some l ->
                      (match l with
                       | [] -> None
                       | c :: l0 ->
                         (match l0 with
                          | [] ->
                            let st' = { d_line = st.d_line; d_col =
                              (Z.add st.d_col c); d_src = st.d_src; d_sl =
                              st.d_sl; d_sc = st.d_sc; d_name = st.d_name }
                            in
                            (match decode_mappings_from f rest st' with
                             | Some ts ->
                               Some ({ rt_gl = st'.d_line; rt_gc = st'.d_col;
                                 rt_src = None; rt_name = None } :: ts)
                             | None -> None)
                          | si :: l1 ->
                            (match l1 with
                             | [] -> None
                             | sl :: l2 ->
                               (match l2 with
                                | [] -> None
                                | sc :: l3 ->
                                  (match l3 with
                                   | [] ->
                                     let st' = { d_line = st.d_line; d_col =
                                       (Z.add st.d_col c); d_src =
                                       (Z.add st.d_src si); d_sl =
                                       (Z.add st.d_sl sl); d_sc =
                                       (Z.add st.d_sc sc); d_name =
                                       st.d_name }
                                     in
                                     (match decode_mappings_from f rest st' with
                                      | Some ts ->
                                        Some ({ rt_gl = st'.d_line; rt_gc =
                                          st'.d_col; rt_src = (Some
                                          ((st'.d_src, st'.d_sl), st'.d_sc));
                                          rt_name = None } :: ts)
                                      | None -> None)
                                   | ni :: l4 ->
                                     (match l4 with
                                      | [] ->
                                        let st' = { d_line = st.d_line;
                                          d_col = (Z.add st.d_col c); d_src =
                                          (Z.add st.d_src si); d_sl =
                                          (Z.add st.d_sl sl); d_sc =
                                          (Z.add st.d_sc sc); d_name =
                                          (Z.add st.d_name ni) }
                                        in
                                        (match decode_mappings_from f rest st' with
                                         | Some ts ->
                                           Some ({ rt_gl = st'.d_line;
                                             rt_gc = st'.d_col; rt_src =
                                             (Some ((st'.d_src, st'.d_sl),
                                             st'.d_sc)); rt_name = (Some
                                             st'.d_name) } :: ts)
                                         | None -> None)
                                      | _ :: _ -> None))))))
                    | None -> None)
              else if b1
                   then if b2
                        then if b3
                             then let (ds, rest) = b64_prefix s in
                                  (match vlq_all (S (length ds)) ds with
                                   | Some l ->
                                     (match l with
                                      | [] -> None
                                      | c :: l0 ->
                                        (match l0 with
                                         | [] ->
                                           let st' = { d_line = st.d_line;
                                             d_col = (Z.add st.d_col c);
                                             d_src = st.d_src; d_sl =
                                             st.d_sl; d_sc = st.d_sc;
                                             d_name = st.d_name }
                                           in
                                           (match decode_mappings_from f rest
                                                    st' with
                                            | Some ts ->
                                              Some ({ rt_gl = st'.d_line;
                                                rt_gc = st'.d_col; rt_src =
                                                None; rt_name = None } :: ts)
                                            | None -> None)
                                         | si :: l1 ->
                                           (match l1 with
                                            | [] -> None
                                            | sl :: l2 ->
                                              (match l2 with
                                               | [] -> None
                                               | sc :: l3 ->
                                                 (match l3 with
                                                  | [] ->
                                                    let st' = { d_line =
                                                      st.d_line; d_col =
                                                      (Z.add st.d_col c);
                                                      d_src =
                                                      (Z.add st.d_src si);
                                                      d_sl =
                                                      (Z.add st.d_sl sl);
                                                      d_sc =
                                                      (Z.add st.d_sc sc);
                                                      d_name = st.d_name }
                                                    in
                                                    (match decode_mappings_from
                                                             f rest st' with
                                                     | Some ts ->
                                                       Some ({ rt_gl =
                                                         st'.d_line; rt_gc =
                                                         st'.d_col; rt_src =
                                                         (Some ((st'.d_src,
                                                         st'.d_sl),
                                                         st'.d_sc));
                                                         rt_name =
                                                         None } :: ts)
                                                     | None -> None)
                                                  | ni :: l4 ->
                                                    (match l4 with
                                                     | [] ->
                                                       let st' = { d_line =
                                                         st.d_line; d_col =
                                                         (Z.add st.d_col c);
                                                         d_src =
                                                         (Z.add st.d_src si);
                                                         d_sl =
                                                         (Z.add st.d_sl sl);
                                                         d_sc =
                                                         (Z.add st.d_sc sc);
                                                         d_name =
                                                         (Z.add st.d_name ni) }
                                                       in
                                                       (match decode_mappings_from
                                                                f rest st' with
                                                        | Some ts ->
                                                          Some ({ rt_gl =
                                                            st'.d_line;
                                                            rt_gc =
                                                            st'.d_col;
                                                            rt_src = (Some
                                                            ((st'.d_src,
                                                            st'.d_sl),
                                                            st'.d_sc));
                                                            rt_name = (Some
                                                            st'.d_name) } :: ts)
                                                        | None -> None)
                                                     | _ :: _ -> None))))))
                                   | None -> None)
                             else if b4
                                  then if b5
                                       then let (ds, rest) = b64_prefix s in
                                            (match vlq_all (S (length ds)) ds with
                                             | Some l ->
                                               (match l with
                                                | [] -> None
                                                | c :: l0 ->
                                                  (match l0 with
                                                   | [] ->
                                                     let st' = { d_line =
                                                       st.d_line; d_col =
                                                       (Z.add st.d_col c);
                                                       d_src = st.d_src;
                                                       d_sl = st.d_sl; d_sc =
                                                       st.d_sc; d_name =
                                                       st.d_name }
                                                     in
                                                     (match decode_mappings_from
                                                              f rest st' with
                                                      | Some ts ->
                                                        Some ({ rt_gl =
                                                          st'.d_line; rt_gc =
                                                          st'.d_col; rt_src =
                                                          None; rt_name =
                                                          None } :: ts)
                                                      | None -> None)
                                                   | si :: l1 ->
                                                     (match l1 with
                                                      | [] -> None
                                                      | sl :: l2 ->
                                                        (match l2 with
                                                         | [] -> None
                                                         | sc :: l3 ->
                                                           (match l3 with
                                                            | [] ->
                                                              let st' =
                                                                { d_line =
                                                                st.d_line;
                                                                d_col =
                                                                (Z.add
                                                                  st.d_col c);
                                                                d_src =
                                                                (Z.add
                                                                  st.d_src si);
                                                                d_sl =
                                                                (Z.add
                                                                  st.d_sl sl);
                                                                d_sc =
                                                                (Z.add
                                                                  st.d_sc sc);
                                                                d_name =
                                                                st.d_name }
                                                              in
                                                              (match 
                                                               decode_mappings_from
                                                                 f rest st' with
                                                               | Some ts ->
                                                                 Some
                                                                   ({ rt_gl =
                                                                   st'.d_line;
                                                                   rt_gc =
                                                                   st'.d_col;
                                                                   rt_src =
                                                                   (Some
                                                                   ((st'.d_src,
                                                                   st'.d_sl),
                                                                   st'.d_sc));
                                                                   rt_name =
                                                                   None } :: ts)
                                                               | None -> None)
                                                            | ni :: l4 ->
                                                              (match l4 with
                                                               | [] ->
                                                                 let st' =
                                                                   { d_line =
                                                                   st.d_line;
                                                                   d_col =
                                                                   (Z.add
                                                                    st.d_col
                                                                    c);
                                                                   d_src =
                                                                   (Z.add
                                                                    st.d_src
                                                                    si);
                                                                   d_sl =
                                                                   (Z.add
                                                                    st.d_sl
                                                                    sl);
                                                                   d_sc =
                                                                   (Z.add
                                                                    st.d_sc
                                                                    sc);
                                                                   d_name =
                                                                   (Z.add
                                                                    st.d_name
                                                                    ni) }
                                                                 in
                                                                 (match 
                                                                  decode_mappings_from
                                                                    f rest st' with
                                                                  | Some ts ->
                                                                    Some
                                                                    ({ rt_gl =
                                                                    st'.d_line;
                                                                    rt_gc =
                                                                    st'.d_col;
                                                                    rt_src =
                                                                    (Some
                                                                    ((st'.d_src,
                                                                    st'.d_sl),
                                                                    st'.d_sc));
                                                                    rt_name =
                                                                    (Some
                                                                    st'.d_name) } :: ts)
                                                                  | None ->
                                                                    None)
                                                               | _ :: _ ->
                                                                 None))))))
                                             | None -> None)
                                       else if b6
                                            then let (ds, rest) = b64_prefix s
                                                 in
                                                 (match vlq_all (S
                                                          (length ds)) ds with
                                                  | Some l ->
                                                    (match l with
                                                     | [] -> None
                                                     | c :: l0 ->
                                                       (match l0 with
                                                        | [] ->
                                                          let st' =
                                                            { d_line =
                                                            st.d_line;
                                                            d_col =
                                                            (Z.add st.d_col c);
                                                            d_src = st.d_src;
                                                            d_sl = st.d_sl;
                                                            d_sc = st.d_sc;
                                                            d_name =
                                                            st.d_name }
                                                          in
                                                          (match decode_mappings_from
                                                                   f rest st' with
                                                           | Some ts ->
                                                             Some ({ rt_gl =
                                                               st'.d_line;
                                                               rt_gc =
                                                               st'.d_col;
                                                               rt_src = None;
                                                               rt_name =
                                                               None } :: ts)
                                                           | None -> None)
                                                        | si :: l1 ->
                                                          (match l1 with
                                                           | [] -> None
                                                           | sl :: l2 ->
                                                             (match l2 with
                                                              | [] -> None
                                                              | sc :: l3 ->
                                                                (match l3 with
                                                                 | [] ->
                                                                   let st' =
                                                                    { d_line =
                                                                    st.d_line;
                                                                    d_col =
                                                                    (Z.add
                                                                    st.d_col
                                                                    c);
                                                                    d_src =
                                                                    (Z.add
                                                                    st.d_src
                                                                    si);
                                                                    d_sl =
                                                                    (Z.add
                                                                    st.d_sl
                                                                    sl);
                                                                    d_sc =
                                                                    (Z.add
                                                                    st.d_sc
                                                                    sc);
                                                                    d_name =
                                                                    st.d_name }
                                                                   in
                                                                   (match 
                                                                    decode_mappings_from
                                                                    f rest st' with
                                                                    | Some ts ->
                                                                    Some
                                                                    ({ rt_gl =
                                                                    st'.d_line;
                                                                    rt_gc =
                                                                    st'.d_col;
                                                                    rt_src =
                                                                    (Some
                                                                    ((st'.d_src,
                                                                    st'.d_sl),
                                                                    st'.d_sc));
                                                                    rt_name =
                                                                    None } :: ts)
                                                                    | None ->
                                                                    None)
                                                                 | ni :: l4 ->
                                                                   (match l4 with
                                                                    | [] ->
                                                                    let st' =
                                                                    { d_line =
                                                                    st.d_line;
                                                                    d_col =
                                                                    (Z.add
                                                                    st.d_col
                                                                    c);
                                                                    d_src =
                                                                    (Z.add
                                                                    st.d_src
                                                                    si);
                                                                    d_sl =
                                                                    (Z.add
                                                                    st.d_sl
                                                                    sl);
                                                                    d_sc =
                                                                    (Z.add
                                                                    st.d_sc
                                                                    sc);
                                                                    d_name =
                                                                    (Z.add
                                                                    st.d_name
                                                                    ni) }
                                                                    in
                                                                    (
                                                                    match 
                                                                    decode_mappings_from
                                                                    f rest st' with
                                                                    | Some ts ->
                                                                    Some
                                                                    ({ rt_gl =
                                                                    st'.d_line;
                                                                    rt_gc =
                                                                    st'.d_col;
                                                                    rt_src =
                                                                    (Some
                                                                    ((st'.d_src,
                                                                    st'.d_sl),
                                                                    st'.d_sc));
                                                                    rt_name =
                                                                    (Some
                                                                    st'.d_name) } :: ts)
                                                                    | None ->
                                                                    None)
                                                                    | _ :: _ ->
                                                                    None))))))
                                                  | None -> None)
                                            else decode_mappings_from f r st
                                  else let (ds, rest) = b64_prefix s in
                                       (match vlq_all (S (length ds)) ds with
                                        | Some l ->
                                          (match l with
                                           | [] -> None
                                           | c :: l0 ->
                                             (match l0 with
                                              | [] ->
                                                let st' = { d_line =
                                                  st.d_line; d_col =
                                                  (Z.add st.d_col c); d_src =
                                                  st.d_src; d_sl = st.d_sl;
                                                  d_sc = st.d_sc; d_name =
                                                  st.d_name }
                                                in
                                                (match decode_mappings_from f
                                                         rest st' with
                                                 | Some ts ->
                                                   Some ({ rt_gl =
                                                     st'.d_line; rt_gc =
                                                     st'.d_col; rt_src =
                                                     None; rt_name =
                                                     None } :: ts)
                                                 | None -> None)
                                              | si :: l1 ->
                                                (match l1 with
                                                 | [] -> None
                                                 | sl :: l2 ->
                                                   (match l2 with
                                                    | [] -> None
                                                    | sc :: l3 ->
                                                      (match l3 with
                                                       | [] ->
                                                         let st' = { d_line =
                                                           st.d_line; d_col =
                                                           (Z.add st.d_col c);
                                                           d_src =
                                                           (Z.add st.d_src si);
                                                           d_sl =
                                                           (Z.add st.d_sl sl);
                                                           d_sc =
                                                           (Z.add st.d_sc sc);
                                                           d_name =
                                                           st.d_name }
                                                         in
                                                         (match decode_mappings_from
                                                                  f rest st' with
                                                          | Some ts ->
                                                            Some ({ rt_gl =
                                                              st'.d_line;
                                                              rt_gc =
                                                              st'.d_col;
                                                              rt_src = (Some
                                                              ((st'.d_src,
                                                              st'.d_sl),
                                                              st'.d_sc));
                                                              rt_name =
                                                              None } :: ts)
                                                          | None -> None)
                                                       | ni :: l4 ->
                                                         (match l4 with
                                                          | [] ->
                                                            let st' =
                                                              { d_line =
                                                              st.d_line;
                                                              d_col =
                                                              (Z.add st.d_col
                                                                c); d_src =
                                                              (Z.add st.d_src
                                                                si); d_sl =
                                                              (Z.add st.d_sl
                                                                sl); d_sc =
                                                              (Z.add st.d_sc
                                                                sc); d_name =
                                                              (Z.add
                                                                st.d_name ni) }
                                                            in
                                                            (match decode_mappings_from
                                                                    f rest st' with
                                                             | Some ts ->
                                                               Some
                                                                 ({ rt_gl =
                                                                 st'.d_line;
                                                                 rt_gc =
                                                                 st'.d_col;
                                                                 rt_src =
                                                                 (Some
                                                                 ((st'.d_src,
                                                                 st'.d_sl),
                                                                 st'.d_sc));
                                                                 rt_name =
                                                                 (Some
                                                                 st'.d_name) } :: ts)
                                                             | None -> None)
                                                          | _ :: _ -> None))))))
                                        | None -> None)
                        else let (ds, rest) = b64_prefix s in
                             (match vlq_all (S (length ds)) ds with
                              | Some l ->
                                (match l with
                                 | [] -> None
                                 | c :: l0 ->
                                   (match l0 with
                                    | [] ->
                                      let st' = { d_line = st.d_line; d_col =
                                        (Z.add st.d_col c); d_src = st.d_src;
                                        d_sl = st.d_sl; d_sc = st.d_sc;
                                        d_name = st.d_name }
                                      in
                                      (match decode_mappings_from f rest st' with
                                       | Some ts ->
                                         Some ({ rt_gl = st'.d_line; rt_gc =
                                           st'.d_col; rt_src = None;
                                           rt_name = None } :: ts)
                                       | None -> None)
                                    | si :: l1 ->
                                      (match l1 with
                                       | [] -> None
                                       | sl :: l2 ->
                                         (match l2 with
                                          | [] -> None
                                          | sc :: l3 ->
                                            (match l3 with
                                             | [] ->
                                               let st' = { d_line =
                                                 st.d_line; d_col =
                                                 (Z.add st.d_col c); d_src =
                                                 (Z.add st.d_src si); d_sl =
                                                 (Z.add st.d_sl sl); d_sc =
                                                 (Z.add st.d_sc sc); d_name =
                                                 st.d_name }
                                               in
                                               (match decode_mappings_from f
                                                        rest st' with
                                                | Some ts ->
                                                  Some ({ rt_gl = st'.d_line;
                                                    rt_gc = st'.d_col;
                                                    rt_src = (Some
                                                    ((st'.d_src, st'.d_sl),
                                                    st'.d_sc)); rt_name =
                                                    None } :: ts)
                                                | None -> None)
                                             | ni :: l4 ->
                                               (match l4 with
                                                | [] ->
                                                  let st' = { d_line =
                                                    st.d_line; d_col =
                                                    (Z.add st.d_col c);
                                                    d_src =
                                                    (Z.add st.d_src si);
                                                    d_sl =
                                                    (Z.add st.d_sl sl);
                                                    d_sc =
                                                    (Z.add st.d_sc sc);
                                                    d_name =
                                                    (Z.add st.d_name ni) }
                                                  in
                                                  (match decode_mappings_from
                                                           f rest st' with
                                                   | Some ts ->
                                                     Some ({ rt_gl =
                                                       st'.d_line; rt_gc =
                                                       st'.d_col; rt_src =
                                                       (Some ((st'.d_src,
                                                       st'.d_sl), st'.d_sc));
                                                       rt_name = (Some
                                                       st'.d_name) } :: ts)
                                                   | None -> None)
                                                | _ :: _ -> None))))))
                              | None -> None)
                   else let (ds, rest) = b64_prefix s in
                        (match vlq_all (S (length ds)) ds with
                         | Some l ->
                           (match l with
                            | [] -> None
                            | c :: l0 ->
                              (match l0 with
                               | [] ->
                                 let st' = { d_line = st.d_line; d_col =
                                   (Z.add st.d_col c); d_src = st.d_src;
                                   d_sl = st.d_sl; d_sc = st.d_sc; d_name =
                                   st.d_name }
                                 in
                                 (match decode_mappings_from f rest st' with
                                  | Some ts ->
                                    Some ({ rt_gl = st'.d_line; rt_gc =
                                      st'.d_col; rt_src = None; rt_name =
                                      None } :: ts)
                                  | None -> None)
                               | si :: l1 ->
                                 (match l1 with
                                  | [] -> None
                                  | sl :: l2 ->
                                    (match l2 with
                                     | [] -> None
                                     | sc :: l3 ->
                                       (match l3 with
                                        | [] ->
                                          let st' = { d_line = st.d_line;
                                            d_col = (Z.add st.d_col c);
                                            d_src = (Z.add st.d_src si);
                                            d_sl = (Z.add st.d_sl sl); d_sc =
                                            (Z.add st.d_sc sc); d_name =
                                            st.d_name }
                                          in
                                          (match decode_mappings_from f rest
                                                   st' with
                                           | Some ts ->
                                             Some ({ rt_gl = st'.d_line;
                                               rt_gc = st'.d_col; rt_src =
                                               (Some ((st'.d_src, st'.d_sl),
                                               st'.d_sc)); rt_name =
                                               None } :: ts)
                                           | None -> None)
                                        | ni :: l4 ->
                                          (match l4 with
                                           | [] ->
                                             let st' = { d_line = st.d_line;
                                               d_col = (Z.add st.d_col c);
                                               d_src = (Z.add st.d_src si);
                                               d_sl = (Z.add st.d_sl sl);
                                               d_sc = (Z.add st.d_sc sc);
                                               d_name = (Z.add st.d_name ni) }
                                             in
                                             (match decode_mappings_from f
                                                      rest st' with
                                              | Some ts ->
                                                Some ({ rt_gl = st'.d_line;
                                                  rt_gc = st'.d_col; rt_src =
                                                  (Some ((st'.d_src,
                                                  st'.d_sl), st'.d_sc));
                                                  rt_name = (Some
                                                  st'.d_name) } :: ts)
                                              | None -> None)
                                           | _ :: _ -> None))))))
                         | None -> None))
         a)

(** val decode_mappings : char list -> raw_token list option **)

let decode_mappings s =
  decode_mappings_from (S (length0 s)) s { d_line = N0; d_col = Z0; d_src =
    Z0; d_sl = Z0; d_sc = Z0; d_name = Z0 }

type lit_entry = { le_value : char list; le_span : sp;
                   le_ident : char list option }

(** val str_value : node -> char list option **)

let str_value = function
| Node (t, cs) ->
  (match t with
   | K (k, _, _) ->
     (match k with
      | KStr ->
        (match cs with
         | [] -> None
         | n1 :: _ ->
           let Node (t0, cs0) = n1 in
           (match t0 with
            | Str v -> (match cs0 with
                        | [] -> Some v
                        | _ :: _ -> None)
            | _ -> None))
      | _ -> None)
   | _ -> None)

(** val entry_of : node -> char list option -> lit_entry list **)

let entry_of n0 ident =
  match str_value n0 with
  | Some v ->
    if gen_len_ok (N.of_nat (length0 v))
    then { le_value = v; le_span = (span_of n0); le_ident = ident } :: []
    else []
  | None -> []

(** val first_arg_is_plain_literal : node list -> bool **)

let first_arg_is_plain_literal = function
| [] -> false
| n0 :: _ ->
  let Node (t, cs) = n0 in
  (match t with
   | Obj ->
     (match cs with
      | [] -> false
      | n1 :: l0 ->
        let Node (t0, cs0) = n1 in
        (match t0 with
         | Nul ->
           (match cs0 with
            | [] ->
              (match l0 with
               | [] -> false
               | e :: l1 -> (match l1 with
                             | [] -> is_lit e
                             | _ :: _ -> false))
            | _ :: _ -> false)
         | _ -> false))
   | _ -> false)

(** val callee_named : node -> char list -> bool **)

let callee_named callee name =
  match ident_sym callee with
  | Some s -> (&&) (is_ident callee) (eqb1 s name)
  | None -> false

(** val skipped : node -> bool **)

let skipped = function
| Node (t, cs) ->
  (match t with
   | K (k, _, _) ->
     (match k with
      | KCall ->
        (match cs with
         | [] -> false
         | _ :: l ->
           (match l with
            | [] -> false
            | callee :: l0 ->
              (match l0 with
               | [] -> false
               | n1 :: l1 ->
                 let Node (t0, args) = n1 in
                 (match t0 with
                  | Lst ->
                    (match l1 with
                     | [] -> false
                     | _ :: l2 ->
                       (match l2 with
                        | [] ->
                          (&&) (callee_named callee gen_REQUIRE)
                            (first_arg_is_plain_literal args)
                        | _ :: _ -> false))
                  | _ -> false))))
      | KNew ->
        (match cs with
         | [] -> false
         | _ :: l ->
           (match l with
            | [] -> false
            | callee :: l0 ->
              (match l0 with
               | [] -> false
               | n1 :: l1 ->
                 let Node (t0, args) = n1 in
                 (match t0 with
                  | Lst ->
                    (match l1 with
                     | [] -> false
                     | _ :: l2 ->
                       (match l2 with
                        | [] ->
                          (&&) (callee_named callee gen_REGEXP)
                            (first_arg_is_plain_literal args)
                        | _ :: _ -> false))
                  | _ -> false))))
      | _ -> false)
   | _ -> false)

(** val binding_name : node -> char list option **)

let binding_name id =
  if is_ident id then ident_sym id else None

(** val here : node -> lit_entry list **)

let here n0 = match n0 with
| Node (t, cs) ->
  (match t with
   | K (k, _, _) ->
     (match k with
      | KVarDeclarator ->
        (match cs with
         | [] -> []
         | id :: l ->
           (match l with
            | [] -> []
            | init :: _ -> entry_of init (binding_name id)))
      | KKeyValue ->
        (match cs with
         | [] -> []
         | key :: l ->
           (match l with
            | [] -> []
            | value0 :: l0 ->
              (match l0 with
               | [] -> entry_of value0 (ident_name_sym key)
               | _ :: _ -> [])))
      | KStr -> entry_of n0 None
      | _ -> [])
   | _ -> [])

(** val not_an_expression : tag -> nat -> node -> bool **)

let not_an_expression parent index c =
  (&&) (is_kind KStr c)
    (match parent with
     | K (k, _, _) ->
       (match k with
        | KKeyValue -> eqb index O
        | KClassMethod -> eqb index O
        | KClassProp -> eqb index O
        | KMethodProp -> eqb index O
        | KGetterProp -> eqb index O
        | KSetterProp -> eqb index O
        | KKeyValuePat -> eqb index O
        | KImportDecl -> true
        | KExportNamed -> true
        | KExportAll -> true
        | KOther name ->
          (match name with
           | [] -> false
           | a::s ->
             (* If this appears, you're using Ascii internals. Please don't *)
 (fun f c ->
  let n = Char.code c in
  let h i = (n land (1 lsl i)) <> 0 in
  f (h 0) (h 1) (h 2) (h 3) (h 4) (h 5) (h 6) (h 7))
               (fun b b0 b1 b2 b3 b4 b5 b6 ->
               if b
               then if b0
                    then false
                    else if b1
                         then if b2
                              then false
                              else if b3
                                   then false
                                   else if b4
                                        then false
                                        else if b5
                                             then if b6
                                                  then false
                                                  else (match s with
                                                        | [] -> false
                                                        | a0::s0 ->
                                                          (* If this appears, you're using Ascii internals. Please don't *)
 (fun f c ->
  let n = Char.code c in
  let h i = (n land (1 lsl i)) <> 0 in
  f (h 0) (h 1) (h 2) (h 3) (h 4) (h 5) (h 6) (h 7))
                                                            (fun b7 b8 b9 b10 b11 b12 b13 b14 ->
                                                            if b7
                                                            then false
                                                            else if b8
                                                                 then false
                                                                 else 
                                                                   if b9
                                                                   then false
                                                                   else 
                                                                    if b10
                                                                    then 
                                                                    if b11
                                                                    then 
                                                                    if b12
                                                                    then 
                                                                    if b13
                                                                    then 
                                                                    if b14
                                                                    then false
                                                                    else 
                                                                    (match s0 with
                                                                    | [] ->
                                                                    false
                                                                    | a1::s1 ->
                                                                    (* If this appears, you're using Ascii internals. Please don't *)
 (fun f c ->
  let n = Char.code c in
  let h i = (n land (1 lsl i)) <> 0 in
  f (h 0) (h 1) (h 2) (h 3) (h 4) (h 5) (h 6) (h 7))
                                                                    (fun b15 b16 b17 b18 b19 b20 b21 b22 ->
                                                                    if b15
                                                                    then false
                                                                    else 
                                                                    if b16
                                                                    then false
                                                                    else 
                                                                    if b17
                                                                    then false
                                                                    else 
                                                                    if b18
                                                                    then false
                                                                    else 
                                                                    if b19
                                                                    then 
                                                                    if b20
                                                                    then 
                                                                    if b21
                                                                    then 
                                                                    if b22
                                                                    then false
                                                                    else 
                                                                    (match s1 with
                                                                    | [] ->
                                                                    false
                                                                    | a2::s2 ->
                                                                    (* If this appears, you're using Ascii internals. Please don't *)
 (fun f c ->
  let n = Char.code c in
  let h i = (n land (1 lsl i)) <> 0 in
  f (h 0) (h 1) (h 2) (h 3) (h 4) (h 5) (h 6) (h 7))
                                                                    (fun b23 b24 b25 b26 b27 b28 b29 b30 ->
                                                                    if b23
                                                                    then 
                                                                    if b24
                                                                    then 
                                                                    if b25
                                                                    then 
                                                                    if b26
                                                                    then 
                                                                    if b27
                                                                    then false
                                                                    else 
                                                                    if b28
                                                                    then 
                                                                    if b29
                                                                    then 
                                                                    if b30
                                                                    then false
                                                                    else 
                                                                    (match s2 with
                                                                    | [] ->
                                                                    false
                                                                    | a3::s3 ->
                                                                    (* If this appears, you're using Ascii internals. Please don't *)
 (fun f c ->
  let n = Char.code c in
  let h i = (n land (1 lsl i)) <> 0 in
  f (h 0) (h 1) (h 2) (h 3) (h 4) (h 5) (h 6) (h 7))
                                                                    (fun b31 b32 b33 b34 b35 b36 b37 b38 ->
                                                                    if b31
                                                                    then false
                                                                    else 
                                                                    if b32
                                                                    then 
                                                                    if b33
                                                                    then false
                                                                    else 
                                                                    if b34
                                                                    then false
                                                                    else 
                                                                    if b35
                                                                    then 
                                                                    if b36
                                                                    then 
                                                                    if b37
                                                                    then 
                                                                    if b38
                                                                    then false
                                                                    else 
                                                                    (match s3 with
                                                                    | [] ->
                                                                    false
                                                                    | a4::s4 ->
                                                                    (* If this appears, you're using Ascii internals. Please don't *)
 (fun f c ->
  let n = Char.code c in
  let h i = (n land (1 lsl i)) <> 0 in
  f (h 0) (h 1) (h 2) (h 3) (h 4) (h 5) (h 6) (h 7))
                                                                    (fun b39 b40 b41 b42 b43 b44 b45 b46 ->
                                                                    if b39
                                                                    then false
                                                                    else 
                                                                    if b40
                                                                    then false
                                                                    else 
                                                                    if b41
                                                                    then 
                                                                    if b42
                                                                    then false
                                                                    else 
                                                                    if b43
                                                                    then 
                                                                    if b44
                                                                    then 
                                                                    if b45
                                                                    then 
                                                                    if b46
                                                                    then false
                                                                    else 
                                                                    (match s4 with
                                                                    | [] ->
                                                                    false
                                                                    | a5::s5 ->
                                                                    (* If this appears, you're using Ascii internals. Please don't *)
 (fun f c ->
  let n = Char.code c in
  let h i = (n land (1 lsl i)) <> 0 in
  f (h 0) (h 1) (h 2) (h 3) (h 4) (h 5) (h 6) (h 7))
                                                                    (fun b47 b48 b49 b50 b51 b52 b53 b54 ->
                                                                    if b47
                                                                    then 
                                                                    if b48
                                                                    then 
                                                                    if b49
                                                                    then false
                                                                    else 
                                                                    if b50
                                                                    then false
                                                                    else 
                                                                    if b51
                                                                    then 
                                                                    if b52
                                                                    then false
                                                                    else 
                                                                    if b53
                                                                    then 
                                                                    if b54
                                                                    then false
                                                                    else 
                                                                    (match s5 with
                                                                    | [] ->
                                                                    false
                                                                    | a6::s6 ->
                                                                    (* If this appears, you're using Ascii internals. Please don't *)
 (fun f c ->
  let n = Char.code c in
  let h i = (n land (1 lsl i)) <> 0 in
  f (h 0) (h 1) (h 2) (h 3) (h 4) (h 5) (h 6) (h 7))
                                                                    (fun b55 b56 b57 b58 b59 b60 b61 b62 ->
                                                                    if b55
                                                                    then false
                                                                    else 
                                                                    if b56
                                                                    then false
                                                                    else 
                                                                    if b57
                                                                    then false
                                                                    else 
                                                                    if b58
                                                                    then false
                                                                    else 
                                                                    if b59
                                                                    then 
                                                                    if b60
                                                                    then 
                                                                    if b61
                                                                    then 
                                                                    if b62
                                                                    then false
                                                                    else 
                                                                    (match s6 with
                                                                    | [] ->
                                                                    false
                                                                    | a7::s7 ->
                                                                    (* If this appears, you're using Ascii internals. Please don't *)
 (fun f c ->
  let n = Char.code c in
  let h i = (n land (1 lsl i)) <> 0 in
  f (h 0) (h 1) (h 2) (h 3) (h 4) (h 5) (h 6) (h 7))
                                                                    (fun b63 b64 b65 b66 b67 b68 b69 b70 ->
                                                                    if b63
                                                                    then 
                                                                    if b64
                                                                    then false
                                                                    else 
                                                                    if b65
                                                                    then 
                                                                    if b66
                                                                    then false
                                                                    else 
                                                                    if b67
                                                                    then false
                                                                    else 
                                                                    if b68
                                                                    then 
                                                                    if b69
                                                                    then 
                                                                    if b70
                                                                    then false
                                                                    else 
                                                                    (match s7 with
                                                                    | [] ->
                                                                    false
                                                                    | a8::s8 ->
                                                                    (* If this appears, you're using Ascii internals. Please don't *)
 (fun f c ->
  let n = Char.code c in
  let h i = (n land (1 lsl i)) <> 0 in
  f (h 0) (h 1) (h 2) (h 3) (h 4) (h 5) (h 6) (h 7))
                                                                    (fun b71 b72 b73 b74 b75 b76 b77 b78 ->
                                                                    if b71
                                                                    then 
                                                                    if b72
                                                                    then 
                                                                    if b73
                                                                    then false
                                                                    else 
                                                                    if b74
                                                                    then false
                                                                    else 
                                                                    if b75
                                                                    then false
                                                                    else 
                                                                    if b76
                                                                    then 
                                                                    if b77
                                                                    then 
                                                                    if b78
                                                                    then false
                                                                    else 
                                                                    (match s8 with
                                                                    | [] ->
                                                                    false
                                                                    | a9::s9 ->
                                                                    (* If this appears, you're using Ascii internals. Please don't *)
 (fun f c ->
  let n = Char.code c in
  let h i = (n land (1 lsl i)) <> 0 in
  f (h 0) (h 1) (h 2) (h 3) (h 4) (h 5) (h 6) (h 7))
                                                                    (fun b79 b80 b81 b82 b83 b84 b85 b86 ->
                                                                    if b79
                                                                    then 
                                                                    if b80
                                                                    then false
                                                                    else 
                                                                    if b81
                                                                    then false
                                                                    else 
                                                                    if b82
                                                                    then 
                                                                    if b83
                                                                    then false
                                                                    else 
                                                                    if b84
                                                                    then 
                                                                    if b85
                                                                    then 
                                                                    if b86
                                                                    then false
                                                                    else 
                                                                    (match s9 with
                                                                    | [] ->
                                                                    false
                                                                    | a10::s10 ->
                                                                    (* If this appears, you're using Ascii internals. Please don't *)
 (fun f c ->
  let n = Char.code c in
  let h i = (n land (1 lsl i)) <> 0 in
  f (h 0) (h 1) (h 2) (h 3) (h 4) (h 5) (h 6) (h 7))
                                                                    (fun b87 b88 b89 b90 b91 b92 b93 b94 ->
                                                                    if b87
                                                                    then false
                                                                    else 
                                                                    if b88
                                                                    then 
                                                                    if b89
                                                                    then 
                                                                    if b90
                                                                    then false
                                                                    else 
                                                                    if b91
                                                                    then false
                                                                    else 
                                                                    if b92
                                                                    then 
                                                                    if b93
                                                                    then 
                                                                    if b94
                                                                    then false
                                                                    else 
                                                                    (match s10 with
                                                                    | [] ->
                                                                    false
                                                                    | a11::s11 ->
                                                                    (* If this appears, you're using Ascii internals. Please don't *)
 (fun f c ->
  let n = Char.code c in
  let h i = (n land (1 lsl i)) <> 0 in
  f (h 0) (h 1) (h 2) (h 3) (h 4) (h 5) (h 6) (h 7))
                                                                    (fun b95 b96 b97 b98 b99 b100 b101 b102 ->
                                                                    if b95
                                                                    then 
                                                                    if b96
                                                                    then false
                                                                    else 
                                                                    if b97
                                                                    then false
                                                                    else 
                                                                    if b98
                                                                    then 
                                                                    if b99
                                                                    then false
                                                                    else 
                                                                    if b100
                                                                    then 
                                                                    if b101
                                                                    then 
                                                                    if b102
                                                                    then false
                                                                    else 
                                                                    (match s11 with
                                                                    | [] ->
                                                                    false
                                                                    | a12::s12 ->
                                                                    (* If this appears, you're using Ascii internals. Please don't *)
 (fun f c ->
  let n = Char.code c in
  let h i = (n land (1 lsl i)) <> 0 in
  f (h 0) (h 1) (h 2) (h 3) (h 4) (h 5) (h 6) (h 7))
                                                                    (fun b103 b104 b105 b106 b107 b108 b109 b110 ->
                                                                    if b103
                                                                    then 
                                                                    if b104
                                                                    then false
                                                                    else 
                                                                    if b105
                                                                    then 
                                                                    if b106
                                                                    then false
                                                                    else 
                                                                    if b107
                                                                    then false
                                                                    else 
                                                                    if b108
                                                                    then 
                                                                    if b109
                                                                    then 
                                                                    if b110
                                                                    then false
                                                                    else 
                                                                    (match s12 with
                                                                    | [] ->
                                                                    false
                                                                    | a13::s13 ->
                                                                    (* If this appears, you're using Ascii internals. Please don't *)
 (fun f c ->
  let n = Char.code c in
  let h i = (n land (1 lsl i)) <> 0 in
  f (h 0) (h 1) (h 2) (h 3) (h 4) (h 5) (h 6) (h 7))
                                                                    (fun b111 b112 b113 b114 b115 b116 b117 b118 ->
                                                                    if b111
                                                                    then false
                                                                    else 
                                                                    if b112
                                                                    then 
                                                                    if b113
                                                                    then false
                                                                    else 
                                                                    if b114
                                                                    then false
                                                                    else 
                                                                    if b115
                                                                    then 
                                                                    if b116
                                                                    then 
                                                                    if b117
                                                                    then 
                                                                    if b118
                                                                    then false
                                                                    else 
                                                                    (match s13 with
                                                                    | [] ->
                                                                    true
                                                                    | _::_ ->
                                                                    false)
                                                                    else false
                                                                    else false
                                                                    else false
                                                                    else false)
                                                                    a13)
                                                                    else false
                                                                    else false
                                                                    else false
                                                                    else false)
                                                                    a12)
                                                                    else false
                                                                    else false
                                                                    else false
                                                                    else false)
                                                                    a11)
                                                                    else false
                                                                    else false
                                                                    else false
                                                                    else false)
                                                                    a10)
                                                                    else false
                                                                    else false
                                                                    else false
                                                                    else false)
                                                                    a9)
                                                                    else false
                                                                    else false
                                                                    else false
                                                                    else false)
                                                                    a8)
                                                                    else false
                                                                    else false
                                                                    else false
                                                                    else false)
                                                                    a7)
                                                                    else false
                                                                    else false
                                                                    else false)
                                                                    a6)
                                                                    else false
                                                                    else false
                                                                    else false
                                                                    else 
                                                                    if b48
                                                                    then 
                                                                    if b49
                                                                    then 
                                                                    if b50
                                                                    then 
                                                                    if b51
                                                                    then false
                                                                    else 
                                                                    if b52
                                                                    then false
                                                                    else 
                                                                    if b53
                                                                    then 
                                                                    if b54
                                                                    then false
                                                                    else 
                                                                    (match s5 with
                                                                    | [] ->
                                                                    false
                                                                    | a6::s6 ->
                                                                    (* If this appears, you're using Ascii internals. Please don't *)
 (fun f c ->
  let n = Char.code c in
  let h i = (n land (1 lsl i)) <> 0 in
  f (h 0) (h 1) (h 2) (h 3) (h 4) (h 5) (h 6) (h 7))
                                                                    (fun b55 b56 b57 b58 b59 b60 b61 b62 ->
                                                                    if b55
                                                                    then 
                                                                    if b56
                                                                    then false
                                                                    else 
                                                                    if b57
                                                                    then false
                                                                    else 
                                                                    if b58
                                                                    then false
                                                                    else 
                                                                    if b59
                                                                    then false
                                                                    else 
                                                                    if b60
                                                                    then 
                                                                    if b61
                                                                    then 
                                                                    if b62
                                                                    then false
                                                                    else 
                                                                    (match s6 with
                                                                    | [] ->
                                                                    false
                                                                    | a7::s7 ->
                                                                    (* If this appears, you're using Ascii internals. Please don't *)
 (fun f c ->
  let n = Char.code c in
  let h i = (n land (1 lsl i)) <> 0 in
  f (h 0) (h 1) (h 2) (h 3) (h 4) (h 5) (h 6) (h 7))
                                                                    (fun b63 b64 b65 b66 b67 b68 b69 b70 ->
                                                                    if b63
                                                                    then 
                                                                    if b64
                                                                    then false
                                                                    else 
                                                                    if b65
                                                                    then 
                                                                    if b66
                                                                    then 
                                                                    if b67
                                                                    then false
                                                                    else 
                                                                    if b68
                                                                    then 
                                                                    if b69
                                                                    then 
                                                                    if b70
                                                                    then false
                                                                    else 
                                                                    (match s7 with
                                                                    | [] ->
                                                                    false
                                                                    | a8::s8 ->
                                                                    (* If this appears, you're using Ascii internals. Please don't *)
 (fun f c ->
  let n = Char.code c in
  let h i = (n land (1 lsl i)) <> 0 in
  f (h 0) (h 1) (h 2) (h 3) (h 4) (h 5) (h 6) (h 7))
                                                                    (fun b71 b72 b73 b74 b75 b76 b77 b78 ->
                                                                    if b71
                                                                    then 
                                                                    if b72
                                                                    then false
                                                                    else 
                                                                    if b73
                                                                    then 
                                                                    if b74
                                                                    then false
                                                                    else 
                                                                    if b75
                                                                    then false
                                                                    else 
                                                                    if b76
                                                                    then 
                                                                    if b77
                                                                    then 
                                                                    if b78
                                                                    then false
                                                                    else 
                                                                    (match s8 with
                                                                    | [] ->
                                                                    false
                                                                    | a9::s9 ->
                                                                    (* If this appears, you're using Ascii internals. Please don't *)
 (fun f c ->
  let n = Char.code c in
  let h i = (n land (1 lsl i)) <> 0 in
  f (h 0) (h 1) (h 2) (h 3) (h 4) (h 5) (h 6) (h 7))
                                                                    (fun b79 b80 b81 b82 b83 b84 b85 b86 ->
                                                                    if b79
                                                                    then 
                                                                    if b80
                                                                    then 
                                                                    if b81
                                                                    then false
                                                                    else 
                                                                    if b82
                                                                    then false
                                                                    else 
                                                                    if b83
                                                                    then 
                                                                    if b84
                                                                    then 
                                                                    if b85
                                                                    then 
                                                                    if b86
                                                                    then false
                                                                    else 
                                                                    (match s9 with
                                                                    | [] ->
                                                                    false
                                                                    | a10::s10 ->
                                                                    (* If this appears, you're using Ascii internals. Please don't *)
 (fun f c ->
  let n = Char.code c in
  let h i = (n land (1 lsl i)) <> 0 in
  f (h 0) (h 1) (h 2) (h 3) (h 4) (h 5) (h 6) (h 7))
                                                                    (fun b87 b88 b89 b90 b91 b92 b93 b94 ->
                                                                    if b87
                                                                    then false
                                                                    else 
                                                                    if b88
                                                                    then false
                                                                    else 
                                                                    if b89
                                                                    then false
                                                                    else 
                                                                    if b90
                                                                    then false
                                                                    else 
                                                                    if b91
                                                                    then 
                                                                    if b92
                                                                    then 
                                                                    if b93
                                                                    then 
                                                                    if b94
                                                                    then false
                                                                    else 
                                                                    (match s10 with
                                                                    | [] ->
                                                                    false
                                                                    | a11::s11 ->
                                                                    (* If this appears, you're using Ascii internals. Please don't *)
 (fun f c ->
  let n = Char.code c in
  let h i = (n land (1 lsl i)) <> 0 in
  f (h 0) (h 1) (h 2) (h 3) (h 4) (h 5) (h 6) (h 7))
                                                                    (fun b95 b96 b97 b98 b99 b100 b101 b102 ->
                                                                    if b95
                                                                    then 
                                                                    if b96
                                                                    then false
                                                                    else 
                                                                    if b97
                                                                    then false
                                                                    else 
                                                                    if b98
                                                                    then false
                                                                    else 
                                                                    if b99
                                                                    then false
                                                                    else 
                                                                    if b100
                                                                    then 
                                                                    if b101
                                                                    then 
                                                                    if b102
                                                                    then false
                                                                    else 
                                                                    (match s11 with
                                                                    | [] ->
                                                                    false
                                                                    | a12::s12 ->
                                                                    (* If this appears, you're using Ascii internals. Please don't *)
 (fun f c ->
  let n = Char.code c in
  let h i = (n land (1 lsl i)) <> 0 in
  f (h 0) (h 1) (h 2) (h 3) (h 4) (h 5) (h 6) (h 7))
                                                                    (fun b103 b104 b105 b106 b107 b108 b109 b110 ->
                                                                    if b103
                                                                    then 
                                                                    if b104
                                                                    then 
                                                                    if b105
                                                                    then false
                                                                    else 
                                                                    if b106
                                                                    then false
                                                                    else 
                                                                    if b107
                                                                    then false
                                                                    else 
                                                                    if b108
                                                                    then 
                                                                    if b109
                                                                    then 
                                                                    if b110
                                                                    then false
                                                                    else 
                                                                    (match s12 with
                                                                    | [] ->
                                                                    false
                                                                    | a13::s13 ->
                                                                    (* If this appears, you're using Ascii internals. Please don't *)
 (fun f c ->
  let n = Char.code c in
  let h i = (n land (1 lsl i)) <> 0 in
  f (h 0) (h 1) (h 2) (h 3) (h 4) (h 5) (h 6) (h 7))
                                                                    (fun b111 b112 b113 b114 b115 b116 b117 b118 ->
                                                                    if b111
                                                                    then 
                                                                    if b112
                                                                    then false
                                                                    else 
                                                                    if b113
                                                                    then 
                                                                    if b114
                                                                    then false
                                                                    else 
                                                                    if b115
                                                                    then false
                                                                    else 
                                                                    if b116
                                                                    then 
                                                                    if b117
                                                                    then 
                                                                    if b118
                                                                    then false
                                                                    else 
                                                                    (match s13 with
                                                                    | [] ->
                                                                    false
                                                                    | a14::s14 ->
                                                                    (* If this appears, you're using Ascii internals. Please don't *)
 (fun f c ->
  let n = Char.code c in
  let h i = (n land (1 lsl i)) <> 0 in
  f (h 0) (h 1) (h 2) (h 3) (h 4) (h 5) (h 6) (h 7))
                                                                    (fun b119 b120 b121 b122 b123 b124 b125 b126 ->
                                                                    if b119
                                                                    then 
                                                                    if b120
                                                                    then 
                                                                    if b121
                                                                    then false
                                                                    else 
                                                                    if b122
                                                                    then false
                                                                    else 
                                                                    if b123
                                                                    then 
                                                                    if b124
                                                                    then false
                                                                    else 
                                                                    if b125
                                                                    then 
                                                                    if b126
                                                                    then false
                                                                    else 
                                                                    (match s14 with
                                                                    | [] ->
                                                                    false
                                                                    | a15::s15 ->
                                                                    (* If this appears, you're using Ascii internals. Please don't *)
 (fun f c ->
  let n = Char.code c in
  let h i = (n land (1 lsl i)) <> 0 in
  f (h 0) (h 1) (h 2) (h 3) (h 4) (h 5) (h 6) (h 7))
                                                                    (fun b127 b128 b129 b130 b131 b132 b133 b134 ->
                                                                    if b127
                                                                    then false
                                                                    else 
                                                                    if b128
                                                                    then false
                                                                    else 
                                                                    if b129
                                                                    then false
                                                                    else 
                                                                    if b130
                                                                    then false
                                                                    else 
                                                                    if b131
                                                                    then 
                                                                    if b132
                                                                    then 
                                                                    if b133
                                                                    then 
                                                                    if b134
                                                                    then false
                                                                    else 
                                                                    (match s15 with
                                                                    | [] ->
                                                                    false
                                                                    | a16::s16 ->
                                                                    (* If this appears, you're using Ascii internals. Please don't *)
 (fun f c ->
  let n = Char.code c in
  let h i = (n land (1 lsl i)) <> 0 in
  f (h 0) (h 1) (h 2) (h 3) (h 4) (h 5) (h 6) (h 7))
                                                                    (fun b135 b136 b137 b138 b139 b140 b141 b142 ->
                                                                    if b135
                                                                    then 
                                                                    if b136
                                                                    then false
                                                                    else 
                                                                    if b137
                                                                    then 
                                                                    if b138
                                                                    then false
                                                                    else 
                                                                    if b139
                                                                    then false
                                                                    else 
                                                                    if b140
                                                                    then 
                                                                    if b141
                                                                    then 
                                                                    if b142
                                                                    then false
                                                                    else 
                                                                    (match s16 with
                                                                    | [] ->
                                                                    false
                                                                    | a17::s17 ->
                                                                    (* If this appears, you're using Ascii internals. Please don't *)
 (fun f c ->
  let n = Char.code c in
  let h i = (n land (1 lsl i)) <> 0 in
  f (h 0) (h 1) (h 2) (h 3) (h 4) (h 5) (h 6) (h 7))
                                                                    (fun b143 b144 b145 b146 b147 b148 b149 b150 ->
                                                                    if b143
                                                                    then 
                                                                    if b144
                                                                    then 
                                                                    if b145
                                                                    then false
                                                                    else 
                                                                    if b146
                                                                    then false
                                                                    else 
                                                                    if b147
                                                                    then false
                                                                    else 
                                                                    if b148
                                                                    then 
                                                                    if b149
                                                                    then 
                                                                    if b150
                                                                    then false
                                                                    else 
                                                                    (match s17 with
                                                                    | [] ->
                                                                    false
                                                                    | a18::s18 ->
                                                                    (* If this appears, you're using Ascii internals. Please don't *)
 (fun f c ->
  let n = Char.code c in
  let h i = (n land (1 lsl i)) <> 0 in
  f (h 0) (h 1) (h 2) (h 3) (h 4) (h 5) (h 6) (h 7))
                                                                    (fun b151 b152 b153 b154 b155 b156 b157 b158 ->
                                                                    if b151
                                                                    then 
                                                                    if b152
                                                                    then false
                                                                    else 
                                                                    if b153
                                                                    then false
                                                                    else 
                                                                    if b154
                                                                    then 
                                                                    if b155
                                                                    then false
                                                                    else 
                                                                    if b156
                                                                    then 
                                                                    if b157
                                                                    then 
                                                                    if b158
                                                                    then false
                                                                    else 
                                                                    (match s18 with
                                                                    | [] ->
                                                                    false
                                                                    | a19::s19 ->
                                                                    (* If this appears, you're using Ascii internals. Please don't *)
 (fun f c ->
  let n = Char.code c in
  let h i = (n land (1 lsl i)) <> 0 in
  f (h 0) (h 1) (h 2) (h 3) (h 4) (h 5) (h 6) (h 7))
                                                                    (fun b159 b160 b161 b162 b163 b164 b165 b166 ->
                                                                    if b159
                                                                    then false
                                                                    else 
                                                                    if b160
                                                                    then 
                                                                    if b161
                                                                    then 
                                                                    if b162
                                                                    then false
                                                                    else 
                                                                    if b163
                                                                    then false
                                                                    else 
                                                                    if b164
                                                                    then 
                                                                    if b165
                                                                    then 
                                                                    if b166
                                                                    then false
                                                                    else 
                                                                    (match s19 with
                                                                    | [] ->
                                                                    false
                                                                    | a20::s20 ->
                                                                    (* If this appears, you're using Ascii internals. Please don't *)
 (fun f c ->
  let n = Char.code c in
  let h i = (n land (1 lsl i)) <> 0 in
  f (h 0) (h 1) (h 2) (h 3) (h 4) (h 5) (h 6) (h 7))
                                                                    (fun b167 b168 b169 b170 b171 b172 b173 b174 ->
                                                                    if b167
                                                                    then 
                                                                    if b168
                                                                    then false
                                                                    else 
                                                                    if b169
                                                                    then false
                                                                    else 
                                                                    if b170
                                                                    then 
                                                                    if b171
                                                                    then false
                                                                    else 
                                                                    if b172
                                                                    then 
                                                                    if b173
                                                                    then 
                                                                    if b174
                                                                    then false
                                                                    else 
                                                                    (match s20 with
                                                                    | [] ->
                                                                    false
                                                                    | a21::s21 ->
                                                                    (* If this appears, you're using Ascii internals. Please don't *)
 (fun f c ->
  let n = Char.code c in
  let h i = (n land (1 lsl i)) <> 0 in
  f (h 0) (h 1) (h 2) (h 3) (h 4) (h 5) (h 6) (h 7))
                                                                    (fun b175 b176 b177 b178 b179 b180 b181 b182 ->
                                                                    if b175
                                                                    then 
                                                                    if b176
                                                                    then false
                                                                    else 
                                                                    if b177
                                                                    then 
                                                                    if b178
                                                                    then false
                                                                    else 
                                                                    if b179
                                                                    then false
                                                                    else 
                                                                    if b180
                                                                    then 
                                                                    if b181
                                                                    then 
                                                                    if b182
                                                                    then false
                                                                    else 
                                                                    (match s21 with
                                                                    | [] ->
                                                                    false
                                                                    | a22::s22 ->
                                                                    (* If this appears, you're using Ascii internals. Please don't *)
 (fun f c ->
  let n = Char.code c in
  let h i = (n land (1 lsl i)) <> 0 in
  f (h 0) (h 1) (h 2) (h 3) (h 4) (h 5) (h 6) (h 7))
                                                                    (fun b183 b184 b185 b186 b187 b188 b189 b190 ->
                                                                    if b183
                                                                    then false
                                                                    else 
                                                                    if b184
                                                                    then 
                                                                    if b185
                                                                    then false
                                                                    else 
                                                                    if b186
                                                                    then false
                                                                    else 
                                                                    if b187
                                                                    then 
                                                                    if b188
                                                                    then 
                                                                    if b189
                                                                    then 
                                                                    if b190
                                                                    then false
                                                                    else 
                                                                    (match s22 with
                                                                    | [] ->
                                                                    true
                                                                    | _::_ ->
                                                                    false)
                                                                    else false
                                                                    else false
                                                                    else false
                                                                    else false)
                                                                    a22)
                                                                    else false
                                                                    else false
                                                                    else false
                                                                    else false)
                                                                    a21)
                                                                    else false
                                                                    else false
                                                                    else false
                                                                    else false)
                                                                    a20)
                                                                    else false
                                                                    else false
                                                                    else false
                                                                    else false)
                                                                    a19)
                                                                    else false
                                                                    else false
                                                                    else false
                                                                    else false)
                                                                    a18)
                                                                    else false
                                                                    else false
                                                                    else false
                                                                    else false)
                                                                    a17)
                                                                    else false
                                                                    else false
                                                                    else false
                                                                    else false)
                                                                    a16)
                                                                    else false
                                                                    else false
                                                                    else false)
                                                                    a15)
                                                                    else false
                                                                    else false
                                                                    else false
                                                                    else false)
                                                                    a14)
                                                                    else false
                                                                    else false
                                                                    else false
                                                                    else false)
                                                                    a13)
                                                                    else false
                                                                    else false
                                                                    else false
                                                                    else false)
                                                                    a12)
                                                                    else false
                                                                    else false
                                                                    else false)
                                                                    a11)
                                                                    else false
                                                                    else false
                                                                    else false)
                                                                    a10)
                                                                    else false
                                                                    else false
                                                                    else false
                                                                    else false
                                                                    else false)
                                                                    a9)
                                                                    else false
                                                                    else false
                                                                    else false
                                                                    else false)
                                                                    a8)
                                                                    else false
                                                                    else false
                                                                    else false
                                                                    else false
                                                                    else false)
                                                                    a7)
                                                                    else false
                                                                    else false
                                                                    else false)
                                                                    a6)
                                                                    else false
                                                                    else false
                                                                    else false
                                                                    else 
                                                                    if b49
                                                                    then 
                                                                    if b50
                                                                    then false
                                                                    else 
                                                                    if b51
                                                                    then false
                                                                    else 
                                                                    if b52
                                                                    then false
                                                                    else 
                                                                    if b53
                                                                    then 
                                                                    if b54
                                                                    then false
                                                                    else 
                                                                    (match s5 with
                                                                    | [] ->
                                                                    false
                                                                    | a6::s6 ->
                                                                    (* If this appears, you're using Ascii internals. Please don't *)
 (fun f c ->
  let n = Char.code c in
  let h i = (n land (1 lsl i)) <> 0 in
  f (h 0) (h 1) (h 2) (h 3) (h 4) (h 5) (h 6) (h 7))
                                                                    (fun b55 b56 b57 b58 b59 b60 b61 b62 ->
                                                                    if b55
                                                                    then 
                                                                    if b56
                                                                    then false
                                                                    else 
                                                                    if b57
                                                                    then 
                                                                    if b58
                                                                    then false
                                                                    else 
                                                                    if b59
                                                                    then false
                                                                    else 
                                                                    if b60
                                                                    then 
                                                                    if b61
                                                                    then 
                                                                    if b62
                                                                    then false
                                                                    else 
                                                                    (match s6 with
                                                                    | [] ->
                                                                    false
                                                                    | a7::s7 ->
                                                                    (* If this appears, you're using Ascii internals. Please don't *)
 (fun f c ->
  let n = Char.code c in
  let h i = (n land (1 lsl i)) <> 0 in
  f (h 0) (h 1) (h 2) (h 3) (h 4) (h 5) (h 6) (h 7))
                                                                    (fun b63 b64 b65 b66 b67 b68 b69 b70 ->
                                                                    if b63
                                                                    then false
                                                                    else 
                                                                    if b64
                                                                    then 
                                                                    if b65
                                                                    then 
                                                                    if b66
                                                                    then false
                                                                    else 
                                                                    if b67
                                                                    then false
                                                                    else 
                                                                    if b68
                                                                    then 
                                                                    if b69
                                                                    then 
                                                                    if b70
                                                                    then false
                                                                    else 
                                                                    (match s7 with
                                                                    | [] ->
                                                                    false
                                                                    | a8::s8 ->
                                                                    (* If this appears, you're using Ascii internals. Please don't *)
 (fun f c ->
  let n = Char.code c in
  let h i = (n land (1 lsl i)) <> 0 in
  f (h 0) (h 1) (h 2) (h 3) (h 4) (h 5) (h 6) (h 7))
                                                                    (fun b71 b72 b73 b74 b75 b76 b77 b78 ->
                                                                    if b71
                                                                    then 
                                                                    if b72
                                                                    then false
                                                                    else 
                                                                    if b73
                                                                    then false
                                                                    else 
                                                                    if b74
                                                                    then false
                                                                    else 
                                                                    if b75
                                                                    then false
                                                                    else 
                                                                    if b76
                                                                    then 
                                                                    if b77
                                                                    then 
                                                                    if b78
                                                                    then false
                                                                    else 
                                                                    (match s8 with
                                                                    | [] ->
                                                                    false
                                                                    | a9::s9 ->
                                                                    (* If this appears, you're using Ascii internals. Please don't *)
 (fun f c ->
  let n = Char.code c in
  let h i = (n land (1 lsl i)) <> 0 in
  f (h 0) (h 1) (h 2) (h 3) (h 4) (h 5) (h 6) (h 7))
                                                                    (fun b79 b80 b81 b82 b83 b84 b85 b86 ->
                                                                    if b79
                                                                    then 
                                                                    if b80
                                                                    then false
                                                                    else 
                                                                    if b81
                                                                    then 
                                                                    if b82
                                                                    then false
                                                                    else 
                                                                    if b83
                                                                    then 
                                                                    if b84
                                                                    then 
                                                                    if b85
                                                                    then 
                                                                    if b86
                                                                    then false
                                                                    else 
                                                                    (match s9 with
                                                                    | [] ->
                                                                    false
                                                                    | a10::s10 ->
                                                                    (* If this appears, you're using Ascii internals. Please don't *)
 (fun f c ->
  let n = Char.code c in
  let h i = (n land (1 lsl i)) <> 0 in
  f (h 0) (h 1) (h 2) (h 3) (h 4) (h 5) (h 6) (h 7))
                                                                    (fun b87 b88 b89 b90 b91 b92 b93 b94 ->
                                                                    if b87
                                                                    then false
                                                                    else 
                                                                    if b88
                                                                    then false
                                                                    else 
                                                                    if b89
                                                                    then 
                                                                    if b90
                                                                    then 
                                                                    if b91
                                                                    then false
                                                                    else 
                                                                    if b92
                                                                    then 
                                                                    if b93
                                                                    then 
                                                                    if b94
                                                                    then false
                                                                    else 
                                                                    (match s10 with
                                                                    | [] ->
                                                                    false
                                                                    | a11::s11 ->
                                                                    (* If this appears, you're using Ascii internals. Please don't *)
 (fun f c ->
  let n = Char.code c in
  let h i = (n land (1 lsl i)) <> 0 in
  f (h 0) (h 1) (h 2) (h 3) (h 4) (h 5) (h 6) (h 7))
                                                                    (fun b95 b96 b97 b98 b99 b100 b101 b102 ->
                                                                    if b95
                                                                    then false
                                                                    else 
                                                                    if b96
                                                                    then false
                                                                    else 
                                                                    if b97
                                                                    then 
                                                                    if b98
                                                                    then false
                                                                    else 
                                                                    if b99
                                                                    then 
                                                                    if b100
                                                                    then 
                                                                    if b101
                                                                    then 
                                                                    if b102
                                                                    then false
                                                                    else 
                                                                    (match s11 with
                                                                    | [] ->
                                                                    false
                                                                    | a12::s12 ->
                                                                    (* If this appears, you're using Ascii internals. Please don't *)
 (fun f c ->
  let n = Char.code c in
  let h i = (n land (1 lsl i)) <> 0 in
  f (h 0) (h 1) (h 2) (h 3) (h 4) (h 5) (h 6) (h 7))
                                                                    (fun b103 b104 b105 b106 b107 b108 b109 b110 ->
                                                                    if b103
                                                                    then 
                                                                    if b104
                                                                    then 
                                                                    if b105
                                                                    then false
                                                                    else 
                                                                    if b106
                                                                    then false
                                                                    else 
                                                                    if b107
                                                                    then 
                                                                    if b108
                                                                    then false
                                                                    else 
                                                                    if b109
                                                                    then 
                                                                    if b110
                                                                    then false
                                                                    else 
                                                                    (match s12 with
                                                                    | [] ->
                                                                    false
                                                                    | a13::s13 ->
                                                                    (* If this appears, you're using Ascii internals. Please don't *)
 (fun f c ->
  let n = Char.code c in
  let h i = (n land (1 lsl i)) <> 0 in
  f (h 0) (h 1) (h 2) (h 3) (h 4) (h 5) (h 6) (h 7))
                                                                    (fun b111 b112 b113 b114 b115 b116 b117 b118 ->
                                                                    if b111
                                                                    then false
                                                                    else 
                                                                    if b112
                                                                    then false
                                                                    else 
                                                                    if b113
                                                                    then false
                                                                    else 
                                                                    if b114
                                                                    then false
                                                                    else 
                                                                    if b115
                                                                    then 
                                                                    if b116
                                                                    then 
                                                                    if b117
                                                                    then 
                                                                    if b118
                                                                    then false
                                                                    else 
                                                                    (match s13 with
                                                                    | [] ->
                                                                    false
                                                                    | a14::s14 ->
                                                                    (* If this appears, you're using Ascii internals. Please don't *)
 (fun f c ->
  let n = Char.code c in
  let h i = (n land (1 lsl i)) <> 0 in
  f (h 0) (h 1) (h 2) (h 3) (h 4) (h 5) (h 6) (h 7))
                                                                    (fun b119 b120 b121 b122 b123 b124 b125 b126 ->
                                                                    if b119
                                                                    then 
                                                                    if b120
                                                                    then false
                                                                    else 
                                                                    if b121
                                                                    then 
                                                                    if b122
                                                                    then false
                                                                    else 
                                                                    if b123
                                                                    then false
                                                                    else 
                                                                    if b124
                                                                    then 
                                                                    if b125
                                                                    then 
                                                                    if b126
                                                                    then false
                                                                    else 
                                                                    (match s14 with
                                                                    | [] ->
                                                                    false
                                                                    | a15::s15 ->
                                                                    (* If this appears, you're using Ascii internals. Please don't *)
 (fun f c ->
  let n = Char.code c in
  let h i = (n land (1 lsl i)) <> 0 in
  f (h 0) (h 1) (h 2) (h 3) (h 4) (h 5) (h 6) (h 7))
                                                                    (fun b127 b128 b129 b130 b131 b132 b133 b134 ->
                                                                    if b127
                                                                    then 
                                                                    if b128
                                                                    then 
                                                                    if b129
                                                                    then false
                                                                    else 
                                                                    if b130
                                                                    then false
                                                                    else 
                                                                    if b131
                                                                    then false
                                                                    else 
                                                                    if b132
                                                                    then 
                                                                    if b133
                                                                    then 
                                                                    if b134
                                                                    then false
                                                                    else 
                                                                    (match s15 with
                                                                    | [] ->
                                                                    false
                                                                    | a16::s16 ->
                                                                    (* If this appears, you're using Ascii internals. Please don't *)
 (fun f c ->
  let n = Char.code c in
  let h i = (n land (1 lsl i)) <> 0 in
  f (h 0) (h 1) (h 2) (h 3) (h 4) (h 5) (h 6) (h 7))
                                                                    (fun b135 b136 b137 b138 b139 b140 b141 b142 ->
                                                                    if b135
                                                                    then 
                                                                    if b136
                                                                    then false
                                                                    else 
                                                                    if b137
                                                                    then false
                                                                    else 
                                                                    if b138
                                                                    then 
                                                                    if b139
                                                                    then false
                                                                    else 
                                                                    if b140
                                                                    then 
                                                                    if b141
                                                                    then 
                                                                    if b142
                                                                    then false
                                                                    else 
                                                                    (match s16 with
                                                                    | [] ->
                                                                    false
                                                                    | a17::s17 ->
                                                                    (* If this appears, you're using Ascii internals. Please don't *)
 (fun f c ->
  let n = Char.code c in
  let h i = (n land (1 lsl i)) <> 0 in
  f (h 0) (h 1) (h 2) (h 3) (h 4) (h 5) (h 6) (h 7))
                                                                    (fun b143 b144 b145 b146 b147 b148 b149 b150 ->
                                                                    if b143
                                                                    then false
                                                                    else 
                                                                    if b144
                                                                    then 
                                                                    if b145
                                                                    then 
                                                                    if b146
                                                                    then false
                                                                    else 
                                                                    if b147
                                                                    then false
                                                                    else 
                                                                    if b148
                                                                    then 
                                                                    if b149
                                                                    then 
                                                                    if b150
                                                                    then false
                                                                    else 
                                                                    (match s17 with
                                                                    | [] ->
                                                                    false
                                                                    | a18::s18 ->
                                                                    (* If this appears, you're using Ascii internals. Please don't *)
 (fun f c ->
  let n = Char.code c in
  let h i = (n land (1 lsl i)) <> 0 in
  f (h 0) (h 1) (h 2) (h 3) (h 4) (h 5) (h 6) (h 7))
                                                                    (fun b151 b152 b153 b154 b155 b156 b157 b158 ->
                                                                    if b151
                                                                    then 
                                                                    if b152
                                                                    then false
                                                                    else 
                                                                    if b153
                                                                    then false
                                                                    else 
                                                                    if b154
                                                                    then 
                                                                    if b155
                                                                    then false
                                                                    else 
                                                                    if b156
                                                                    then 
                                                                    if b157
                                                                    then 
                                                                    if b158
                                                                    then false
                                                                    else 
                                                                    (match s18 with
                                                                    | [] ->
                                                                    false
                                                                    | a19::s19 ->
                                                                    (* If this appears, you're using Ascii internals. Please don't *)
 (fun f c ->
  let n = Char.code c in
  let h i = (n land (1 lsl i)) <> 0 in
  f (h 0) (h 1) (h 2) (h 3) (h 4) (h 5) (h 6) (h 7))
                                                                    (fun b159 b160 b161 b162 b163 b164 b165 b166 ->
                                                                    if b159
                                                                    then 
                                                                    if b160
                                                                    then false
                                                                    else 
                                                                    if b161
                                                                    then 
                                                                    if b162
                                                                    then false
                                                                    else 
                                                                    if b163
                                                                    then false
                                                                    else 
                                                                    if b164
                                                                    then 
                                                                    if b165
                                                                    then 
                                                                    if b166
                                                                    then false
                                                                    else 
                                                                    (match s19 with
                                                                    | [] ->
                                                                    false
                                                                    | a20::s20 ->
                                                                    (* If this appears, you're using Ascii internals. Please don't *)
 (fun f c ->
  let n = Char.code c in
  let h i = (n land (1 lsl i)) <> 0 in
  f (h 0) (h 1) (h 2) (h 3) (h 4) (h 5) (h 6) (h 7))
                                                                    (fun b167 b168 b169 b170 b171 b172 b173 b174 ->
                                                                    if b167
                                                                    then false
                                                                    else 
                                                                    if b168
                                                                    then 
                                                                    if b169
                                                                    then false
                                                                    else 
                                                                    if b170
                                                                    then false
                                                                    else 
                                                                    if b171
                                                                    then 
                                                                    if b172
                                                                    then 
                                                                    if b173
                                                                    then 
                                                                    if b174
                                                                    then false
                                                                    else 
                                                                    (match s20 with
                                                                    | [] ->
                                                                    true
                                                                    | _::_ ->
                                                                    false)
                                                                    else false
                                                                    else false
                                                                    else false
                                                                    else false)
                                                                    a20)
                                                                    else false
                                                                    else false
                                                                    else false
                                                                    else false)
                                                                    a19)
                                                                    else false
                                                                    else false
                                                                    else false
                                                                    else false)
                                                                    a18)
                                                                    else false
                                                                    else false
                                                                    else false
                                                                    else false)
                                                                    a17)
                                                                    else false
                                                                    else false
                                                                    else false
                                                                    else false)
                                                                    a16)
                                                                    else false
                                                                    else false
                                                                    else false
                                                                    else false)
                                                                    a15)
                                                                    else false
                                                                    else false
                                                                    else false
                                                                    else false)
                                                                    a14)
                                                                    else false
                                                                    else false
                                                                    else false)
                                                                    a13)
                                                                    else false
                                                                    else false
                                                                    else false
                                                                    else false)
                                                                    a12)
                                                                    else false
                                                                    else false
                                                                    else false
                                                                    else false)
                                                                    a11)
                                                                    else false
                                                                    else false
                                                                    else false
                                                                    else false)
                                                                    a10)
                                                                    else false
                                                                    else false
                                                                    else false
                                                                    else false
                                                                    else false)
                                                                    a9)
                                                                    else false
                                                                    else false
                                                                    else false)
                                                                    a8)
                                                                    else false
                                                                    else false
                                                                    else false
                                                                    else false)
                                                                    a7)
                                                                    else false
                                                                    else false
                                                                    else false
                                                                    else false)
                                                                    a6)
                                                                    else false
                                                                    else false)
                                                                    a5)
                                                                    else false
                                                                    else false
                                                                    else false
                                                                    else false)
                                                                    a4)
                                                                    else false
                                                                    else false
                                                                    else false
                                                                    else false)
                                                                    a3)
                                                                    else false
                                                                    else false
                                                                    else false
                                                                    else false
                                                                    else false
                                                                    else false)
                                                                    a2)
                                                                    else false
                                                                    else false
                                                                    else false)
                                                                    a1)
                                                                    else false
                                                                    else false
                                                                    else false
                                                                    else false)
                                                            a0)
                                             else false
                         else if b2
                              then if b3
                                   then false
                                   else if b4
                                        then false
                                        else if b5
                                             then if b6
                                                  then false
                                                  else (match s with
                                                        | [] -> false
                                                        | a0::s0 ->
                                                          (* If this appears, you're using Ascii internals. Please don't *)
 (fun f c ->
  let n = Char.code c in
  let h i = (n land (1 lsl i)) <> 0 in
  f (h 0) (h 1) (h 2) (h 3) (h 4) (h 5) (h 6) (h 7))
                                                            (fun b7 b8 b9 b10 b11 b12 b13 b14 ->
                                                            if b7
                                                            then if b8
                                                                 then false
                                                                 else 
                                                                   if b9
                                                                   then 
                                                                    if b10
                                                                    then 
                                                                    if b11
                                                                    then false
                                                                    else 
                                                                    if b12
                                                                    then 
                                                                    if b13
                                                                    then 
                                                                    if b14
                                                                    then false
                                                                    else 
                                                                    (match s0 with
                                                                    | [] ->
                                                                    false
                                                                    | a1::s1 ->
                                                                    (* If this appears, you're using Ascii internals. Please don't *)
 (fun f c ->
  let n = Char.code c in
  let h i = (n land (1 lsl i)) <> 0 in
  f (h 0) (h 1) (h 2) (h 3) (h 4) (h 5) (h 6) (h 7))
                                                                    (fun b15 b16 b17 b18 b19 b20 b21 b22 ->
                                                                    if b15
                                                                    then false
                                                                    else 
                                                                    if b16
                                                                    then false
                                                                    else 
                                                                    if b17
                                                                    then false
                                                                    else 
                                                                    if b18
                                                                    then false
                                                                    else 
                                                                    if b19
                                                                    then 
                                                                    if b20
                                                                    then 
                                                                    if b21
                                                                    then 
                                                                    if b22
                                                                    then false
                                                                    else 
                                                                    (match s1 with
                                                                    | [] ->
                                                                    false
                                                                    | a2::s2 ->
                                                                    (* If this appears, you're using Ascii internals. Please don't *)
 (fun f c ->
  let n = Char.code c in
  let h i = (n land (1 lsl i)) <> 0 in
  f (h 0) (h 1) (h 2) (h 3) (h 4) (h 5) (h 6) (h 7))
                                                                    (fun b23 b24 b25 b26 b27 b28 b29 b30 ->
                                                                    if b23
                                                                    then 
                                                                    if b24
                                                                    then 
                                                                    if b25
                                                                    then 
                                                                    if b26
                                                                    then 
                                                                    if b27
                                                                    then false
                                                                    else 
                                                                    if b28
                                                                    then 
                                                                    if b29
                                                                    then 
                                                                    if b30
                                                                    then false
                                                                    else 
                                                                    (match s2 with
                                                                    | [] ->
                                                                    false
                                                                    | a3::s3 ->
                                                                    (* If this appears, you're using Ascii internals. Please don't *)
 (fun f c ->
  let n = Char.code c in
  let h i = (n land (1 lsl i)) <> 0 in
  f (h 0) (h 1) (h 2) (h 3) (h 4) (h 5) (h 6) (h 7))
                                                                    (fun b31 b32 b33 b34 b35 b36 b37 b38 ->
                                                                    if b31
                                                                    then false
                                                                    else 
                                                                    if b32
                                                                    then 
                                                                    if b33
                                                                    then false
                                                                    else 
                                                                    if b34
                                                                    then false
                                                                    else 
                                                                    if b35
                                                                    then 
                                                                    if b36
                                                                    then 
                                                                    if b37
                                                                    then 
                                                                    if b38
                                                                    then false
                                                                    else 
                                                                    (match s3 with
                                                                    | [] ->
                                                                    false
                                                                    | a4::s4 ->
                                                                    (* If this appears, you're using Ascii internals. Please don't *)
 (fun f c ->
  let n = Char.code c in
  let h i = (n land (1 lsl i)) <> 0 in
  f (h 0) (h 1) (h 2) (h 3) (h 4) (h 5) (h 6) (h 7))
                                                                    (fun b39 b40 b41 b42 b43 b44 b45 b46 ->
                                                                    if b39
                                                                    then false
                                                                    else 
                                                                    if b40
                                                                    then false
                                                                    else 
                                                                    if b41
                                                                    then 
                                                                    if b42
                                                                    then false
                                                                    else 
                                                                    if b43
                                                                    then 
                                                                    if b44
                                                                    then 
                                                                    if b45
                                                                    then 
                                                                    if b46
                                                                    then false
                                                                    else 
                                                                    (match s4 with
                                                                    | [] ->
                                                                    false
                                                                    | a5::s5 ->
                                                                    (* If this appears, you're using Ascii internals. Please don't *)
 (fun f c ->
  let n = Char.code c in
  let h i = (n land (1 lsl i)) <> 0 in
  f (h 0) (h 1) (h 2) (h 3) (h 4) (h 5) (h 6) (h 7))
                                                                    (fun b47 b48 b49 b50 b51 b52 b53 b54 ->
                                                                    if b47
                                                                    then 
                                                                    if b48
                                                                    then 
                                                                    if b49
                                                                    then false
                                                                    else 
                                                                    if b50
                                                                    then false
                                                                    else 
                                                                    if b51
                                                                    then 
                                                                    if b52
                                                                    then false
                                                                    else 
                                                                    if b53
                                                                    then 
                                                                    if b54
                                                                    then false
                                                                    else 
                                                                    (match s5 with
                                                                    | [] ->
                                                                    false
                                                                    | a6::s6 ->
                                                                    (* If this appears, you're using Ascii internals. Please don't *)
 (fun f c ->
  let n = Char.code c in
  let h i = (n land (1 lsl i)) <> 0 in
  f (h 0) (h 1) (h 2) (h 3) (h 4) (h 5) (h 6) (h 7))
                                                                    (fun b55 b56 b57 b58 b59 b60 b61 b62 ->
                                                                    if b55
                                                                    then false
                                                                    else 
                                                                    if b56
                                                                    then false
                                                                    else 
                                                                    if b57
                                                                    then false
                                                                    else 
                                                                    if b58
                                                                    then false
                                                                    else 
                                                                    if b59
                                                                    then 
                                                                    if b60
                                                                    then 
                                                                    if b61
                                                                    then 
                                                                    if b62
                                                                    then false
                                                                    else 
                                                                    (match s6 with
                                                                    | [] ->
                                                                    false
                                                                    | a7::s7 ->
                                                                    (* If this appears, you're using Ascii internals. Please don't *)
 (fun f c ->
  let n = Char.code c in
  let h i = (n land (1 lsl i)) <> 0 in
  f (h 0) (h 1) (h 2) (h 3) (h 4) (h 5) (h 6) (h 7))
                                                                    (fun b63 b64 b65 b66 b67 b68 b69 b70 ->
                                                                    if b63
                                                                    then 
                                                                    if b64
                                                                    then false
                                                                    else 
                                                                    if b65
                                                                    then 
                                                                    if b66
                                                                    then false
                                                                    else 
                                                                    if b67
                                                                    then false
                                                                    else 
                                                                    if b68
                                                                    then 
                                                                    if b69
                                                                    then 
                                                                    if b70
                                                                    then false
                                                                    else 
                                                                    (match s7 with
                                                                    | [] ->
                                                                    false
                                                                    | a8::s8 ->
                                                                    (* If this appears, you're using Ascii internals. Please don't *)
 (fun f c ->
  let n = Char.code c in
  let h i = (n land (1 lsl i)) <> 0 in
  f (h 0) (h 1) (h 2) (h 3) (h 4) (h 5) (h 6) (h 7))
                                                                    (fun b71 b72 b73 b74 b75 b76 b77 b78 ->
                                                                    if b71
                                                                    then 
                                                                    if b72
                                                                    then 
                                                                    if b73
                                                                    then false
                                                                    else 
                                                                    if b74
                                                                    then false
                                                                    else 
                                                                    if b75
                                                                    then false
                                                                    else 
                                                                    if b76
                                                                    then 
                                                                    if b77
                                                                    then 
                                                                    if b78
                                                                    then false
                                                                    else 
                                                                    (match s8 with
                                                                    | [] ->
                                                                    false
                                                                    | a9::s9 ->
                                                                    (* If this appears, you're using Ascii internals. Please don't *)
 (fun f c ->
  let n = Char.code c in
  let h i = (n land (1 lsl i)) <> 0 in
  f (h 0) (h 1) (h 2) (h 3) (h 4) (h 5) (h 6) (h 7))
                                                                    (fun b79 b80 b81 b82 b83 b84 b85 b86 ->
                                                                    if b79
                                                                    then 
                                                                    if b80
                                                                    then false
                                                                    else 
                                                                    if b81
                                                                    then false
                                                                    else 
                                                                    if b82
                                                                    then 
                                                                    if b83
                                                                    then false
                                                                    else 
                                                                    if b84
                                                                    then 
                                                                    if b85
                                                                    then 
                                                                    if b86
                                                                    then false
                                                                    else 
                                                                    (match s9 with
                                                                    | [] ->
                                                                    false
                                                                    | a10::s10 ->
                                                                    (* If this appears, you're using Ascii internals. Please don't *)
 (fun f c ->
  let n = Char.code c in
  let h i = (n land (1 lsl i)) <> 0 in
  f (h 0) (h 1) (h 2) (h 3) (h 4) (h 5) (h 6) (h 7))
                                                                    (fun b87 b88 b89 b90 b91 b92 b93 b94 ->
                                                                    if b87
                                                                    then false
                                                                    else 
                                                                    if b88
                                                                    then 
                                                                    if b89
                                                                    then 
                                                                    if b90
                                                                    then false
                                                                    else 
                                                                    if b91
                                                                    then false
                                                                    else 
                                                                    if b92
                                                                    then 
                                                                    if b93
                                                                    then 
                                                                    if b94
                                                                    then false
                                                                    else 
                                                                    (match s10 with
                                                                    | [] ->
                                                                    false
                                                                    | a11::s11 ->
                                                                    (* If this appears, you're using Ascii internals. Please don't *)
 (fun f c ->
  let n = Char.code c in
  let h i = (n land (1 lsl i)) <> 0 in
  f (h 0) (h 1) (h 2) (h 3) (h 4) (h 5) (h 6) (h 7))
                                                                    (fun b95 b96 b97 b98 b99 b100 b101 b102 ->
                                                                    if b95
                                                                    then 
                                                                    if b96
                                                                    then false
                                                                    else 
                                                                    if b97
                                                                    then false
                                                                    else 
                                                                    if b98
                                                                    then 
                                                                    if b99
                                                                    then false
                                                                    else 
                                                                    if b100
                                                                    then 
                                                                    if b101
                                                                    then 
                                                                    if b102
                                                                    then false
                                                                    else 
                                                                    (match s11 with
                                                                    | [] ->
                                                                    false
                                                                    | a12::s12 ->
                                                                    (* If this appears, you're using Ascii internals. Please don't *)
 (fun f c ->
  let n = Char.code c in
  let h i = (n land (1 lsl i)) <> 0 in
  f (h 0) (h 1) (h 2) (h 3) (h 4) (h 5) (h 6) (h 7))
                                                                    (fun b103 b104 b105 b106 b107 b108 b109 b110 ->
                                                                    if b103
                                                                    then 
                                                                    if b104
                                                                    then false
                                                                    else 
                                                                    if b105
                                                                    then 
                                                                    if b106
                                                                    then false
                                                                    else 
                                                                    if b107
                                                                    then false
                                                                    else 
                                                                    if b108
                                                                    then 
                                                                    if b109
                                                                    then 
                                                                    if b110
                                                                    then false
                                                                    else 
                                                                    (match s12 with
                                                                    | [] ->
                                                                    false
                                                                    | a13::s13 ->
                                                                    (* If this appears, you're using Ascii internals. Please don't *)
 (fun f c ->
  let n = Char.code c in
  let h i = (n land (1 lsl i)) <> 0 in
  f (h 0) (h 1) (h 2) (h 3) (h 4) (h 5) (h 6) (h 7))
                                                                    (fun b111 b112 b113 b114 b115 b116 b117 b118 ->
                                                                    if b111
                                                                    then false
                                                                    else 
                                                                    if b112
                                                                    then 
                                                                    if b113
                                                                    then false
                                                                    else 
                                                                    if b114
                                                                    then false
                                                                    else 
                                                                    if b115
                                                                    then 
                                                                    if b116
                                                                    then 
                                                                    if b117
                                                                    then 
                                                                    if b118
                                                                    then false
                                                                    else 
                                                                    (match s13 with
                                                                    | [] ->
                                                                    true
                                                                    | _::_ ->
                                                                    false)
                                                                    else false
                                                                    else false
                                                                    else false
                                                                    else false)
                                                                    a13)
                                                                    else false
                                                                    else false
                                                                    else false
                                                                    else false)
                                                                    a12)
                                                                    else false
                                                                    else false
                                                                    else false
                                                                    else false)
                                                                    a11)
                                                                    else false
                                                                    else false
                                                                    else false
                                                                    else false)
                                                                    a10)
                                                                    else false
                                                                    else false
                                                                    else false
                                                                    else false)
                                                                    a9)
                                                                    else false
                                                                    else false
                                                                    else false
                                                                    else false)
                                                                    a8)
                                                                    else false
                                                                    else false
                                                                    else false
                                                                    else false)
                                                                    a7)
                                                                    else false
                                                                    else false
                                                                    else false)
                                                                    a6)
                                                                    else false
                                                                    else false
                                                                    else false
                                                                    else false)
                                                                    a5)
                                                                    else false
                                                                    else false
                                                                    else false
                                                                    else false)
                                                                    a4)
                                                                    else false
                                                                    else false
                                                                    else false
                                                                    else false)
                                                                    a3)
                                                                    else false
                                                                    else false
                                                                    else false
                                                                    else false
                                                                    else false
                                                                    else false)
                                                                    a2)
                                                                    else false
                                                                    else false
                                                                    else false)
                                                                    a1)
                                                                    else false
                                                                    else false
                                                                    else false
                                                                   else false
                                                            else false)
                                                            a0)
                                             else false
                              else if b3
                                   then false
                                   else if b4
                                        then false
                                        else if b5
                                             then if b6
                                                  then false
                                                  else (match s with
                                                        | [] -> false
                                                        | a0::s0 ->
                                                          (* If this appears, you're using Ascii internals. Please don't *)
 (fun f c ->
  let n = Char.code c in
  let h i = (n land (1 lsl i)) <> 0 in
  f (h 0) (h 1) (h 2) (h 3) (h 4) (h 5) (h 6) (h 7))
                                                            (fun b7 b8 b9 b10 b11 b12 b13 b14 ->
                                                            if b7
                                                            then if b8
                                                                 then false
                                                                 else 
                                                                   if b9
                                                                   then 
                                                                    if b10
                                                                    then false
                                                                    else 
                                                                    if b11
                                                                    then 
                                                                    if b12
                                                                    then 
                                                                    if b13
                                                                    then 
                                                                    if b14
                                                                    then false
                                                                    else 
                                                                    (match s0 with
                                                                    | [] ->
                                                                    false
                                                                    | a1::s1 ->
                                                                    (* If this appears, you're using Ascii internals. Please don't *)
 (fun f c ->
  let n = Char.code c in
  let h i = (n land (1 lsl i)) <> 0 in
  f (h 0) (h 1) (h 2) (h 3) (h 4) (h 5) (h 6) (h 7))
                                                                    (fun b15 b16 b17 b18 b19 b20 b21 b22 ->
                                                                    if b15
                                                                    then false
                                                                    else 
                                                                    if b16
                                                                    then false
                                                                    else 
                                                                    if b17
                                                                    then 
                                                                    if b18
                                                                    then false
                                                                    else 
                                                                    if b19
                                                                    then 
                                                                    if b20
                                                                    then 
                                                                    if b21
                                                                    then 
                                                                    if b22
                                                                    then false
                                                                    else 
                                                                    (match s1 with
                                                                    | [] ->
                                                                    false
                                                                    | a2::s2 ->
                                                                    (* If this appears, you're using Ascii internals. Please don't *)
 (fun f c ->
  let n = Char.code c in
  let h i = (n land (1 lsl i)) <> 0 in
  f (h 0) (h 1) (h 2) (h 3) (h 4) (h 5) (h 6) (h 7))
                                                                    (fun b23 b24 b25 b26 b27 b28 b29 b30 ->
                                                                    if b23
                                                                    then 
                                                                    if b24
                                                                    then 
                                                                    if b25
                                                                    then 
                                                                    if b26
                                                                    then 
                                                                    if b27
                                                                    then false
                                                                    else 
                                                                    if b28
                                                                    then 
                                                                    if b29
                                                                    then 
                                                                    if b30
                                                                    then false
                                                                    else 
                                                                    (match s2 with
                                                                    | [] ->
                                                                    false
                                                                    | a3::s3 ->
                                                                    (* If this appears, you're using Ascii internals. Please don't *)
 (fun f c ->
  let n = Char.code c in
  let h i = (n land (1 lsl i)) <> 0 in
  f (h 0) (h 1) (h 2) (h 3) (h 4) (h 5) (h 6) (h 7))
                                                                    (fun b31 b32 b33 b34 b35 b36 b37 b38 ->
                                                                    if b31
                                                                    then 
                                                                    if b32
                                                                    then false
                                                                    else 
                                                                    if b33
                                                                    then false
                                                                    else 
                                                                    if b34
                                                                    then false
                                                                    else 
                                                                    if b35
                                                                    then false
                                                                    else 
                                                                    if b36
                                                                    then false
                                                                    else 
                                                                    if b37
                                                                    then 
                                                                    if b38
                                                                    then false
                                                                    else 
                                                                    (match s3 with
                                                                    | [] ->
                                                                    false
                                                                    | a4::s4 ->
                                                                    (* If this appears, you're using Ascii internals. Please don't *)
 (fun f c ->
  let n = Char.code c in
  let h i = (n land (1 lsl i)) <> 0 in
  f (h 0) (h 1) (h 2) (h 3) (h 4) (h 5) (h 6) (h 7))
                                                                    (fun b39 b40 b41 b42 b43 b44 b45 b46 ->
                                                                    if b39
                                                                    then 
                                                                    if b40
                                                                    then 
                                                                    if b41
                                                                    then false
                                                                    else 
                                                                    if b42
                                                                    then false
                                                                    else 
                                                                    if b43
                                                                    then false
                                                                    else 
                                                                    if b44
                                                                    then 
                                                                    if b45
                                                                    then 
                                                                    if b46
                                                                    then false
                                                                    else 
                                                                    (match s4 with
                                                                    | [] ->
                                                                    false
                                                                    | a5::s5 ->
                                                                    (* If this appears, you're using Ascii internals. Please don't *)
 (fun f c ->
  let n = Char.code c in
  let h i = (n land (1 lsl i)) <> 0 in
  f (h 0) (h 1) (h 2) (h 3) (h 4) (h 5) (h 6) (h 7))
                                                                    (fun b47 b48 b49 b50 b51 b52 b53 b54 ->
                                                                    if b47
                                                                    then 
                                                                    if b48
                                                                    then 
                                                                    if b49
                                                                    then false
                                                                    else 
                                                                    if b50
                                                                    then false
                                                                    else 
                                                                    if b51
                                                                    then false
                                                                    else 
                                                                    if b52
                                                                    then 
                                                                    if b53
                                                                    then 
                                                                    if b54
                                                                    then false
                                                                    else 
                                                                    (match s5 with
                                                                    | [] ->
                                                                    false
                                                                    | a6::s6 ->
                                                                    (* If this appears, you're using Ascii internals. Please don't *)
 (fun f c ->
  let n = Char.code c in
  let h i = (n land (1 lsl i)) <> 0 in
  f (h 0) (h 1) (h 2) (h 3) (h 4) (h 5) (h 6) (h 7))
                                                                    (fun b55 b56 b57 b58 b59 b60 b61 b62 ->
                                                                    if b55
                                                                    then 
                                                                    if b56
                                                                    then false
                                                                    else 
                                                                    if b57
                                                                    then 
                                                                    if b58
                                                                    then false
                                                                    else 
                                                                    if b59
                                                                    then false
                                                                    else 
                                                                    if b60
                                                                    then 
                                                                    if b61
                                                                    then 
                                                                    if b62
                                                                    then false
                                                                    else 
                                                                    (match s6 with
                                                                    | [] ->
                                                                    false
                                                                    | a7::s7 ->
                                                                    (* If this appears, you're using Ascii internals. Please don't *)
 (fun f c ->
  let n = Char.code c in
  let h i = (n land (1 lsl i)) <> 0 in
  f (h 0) (h 1) (h 2) (h 3) (h 4) (h 5) (h 6) (h 7))
                                                                    (fun b63 b64 b65 b66 b67 b68 b69 b70 ->
                                                                    if b63
                                                                    then 
                                                                    if b64
                                                                    then 
                                                                    if b65
                                                                    then false
                                                                    else 
                                                                    if b66
                                                                    then false
                                                                    else 
                                                                    if b67
                                                                    then 
                                                                    if b68
                                                                    then 
                                                                    if b69
                                                                    then 
                                                                    if b70
                                                                    then false
                                                                    else 
                                                                    (match s7 with
                                                                    | [] ->
                                                                    false
                                                                    | a8::s8 ->
                                                                    (* If this appears, you're using Ascii internals. Please don't *)
 (fun f c ->
  let n = Char.code c in
  let h i = (n land (1 lsl i)) <> 0 in
  f (h 0) (h 1) (h 2) (h 3) (h 4) (h 5) (h 6) (h 7))
                                                                    (fun b71 b72 b73 b74 b75 b76 b77 b78 ->
                                                                    if b71
                                                                    then 
                                                                    if b72
                                                                    then 
                                                                    if b73
                                                                    then false
                                                                    else 
                                                                    if b74
                                                                    then false
                                                                    else 
                                                                    if b75
                                                                    then 
                                                                    if b76
                                                                    then 
                                                                    if b77
                                                                    then 
                                                                    if b78
                                                                    then false
                                                                    else 
                                                                    (match s8 with
                                                                    | [] ->
                                                                    false
                                                                    | a9::s9 ->
                                                                    (* If this appears, you're using Ascii internals. Please don't *)
 (fun f c ->
  let n = Char.code c in
  let h i = (n land (1 lsl i)) <> 0 in
  f (h 0) (h 1) (h 2) (h 3) (h 4) (h 5) (h 6) (h 7))
                                                                    (fun b79 b80 b81 b82 b83 b84 b85 b86 ->
                                                                    if b79
                                                                    then 
                                                                    if b80
                                                                    then 
                                                                    if b81
                                                                    then 
                                                                    if b82
                                                                    then 
                                                                    if b83
                                                                    then false
                                                                    else 
                                                                    if b84
                                                                    then 
                                                                    if b85
                                                                    then 
                                                                    if b86
                                                                    then false
                                                                    else 
                                                                    (match s9 with
                                                                    | [] ->
                                                                    false
                                                                    | a10::s10 ->
                                                                    (* If this appears, you're using Ascii internals. Please don't *)
 (fun f c ->
  let n = Char.code c in
  let h i = (n land (1 lsl i)) <> 0 in
  f (h 0) (h 1) (h 2) (h 3) (h 4) (h 5) (h 6) (h 7))
                                                                    (fun b87 b88 b89 b90 b91 b92 b93 b94 ->
                                                                    if b87
                                                                    then false
                                                                    else 
                                                                    if b88
                                                                    then 
                                                                    if b89
                                                                    then false
                                                                    else 
                                                                    if b90
                                                                    then false
                                                                    else 
                                                                    if b91
                                                                    then 
                                                                    if b92
                                                                    then 
                                                                    if b93
                                                                    then 
                                                                    if b94
                                                                    then false
                                                                    else 
                                                                    (match s10 with
                                                                    | [] ->
                                                                    eqb index
                                                                    O
                                                                    | _::_ ->
                                                                    false)
                                                                    else false
                                                                    else false
                                                                    else false
                                                                    else false)
                                                                    a10)
                                                                    else false
                                                                    else false
                                                                    else false
                                                                    else false
                                                                    else false
                                                                    else false)
                                                                    a9)
                                                                    else false
                                                                    else false
                                                                    else false
                                                                    else false
                                                                    else false)
                                                                    a8)
                                                                    else false
                                                                    else false
                                                                    else false
                                                                    else false
                                                                    else false)
                                                                    a7)
                                                                    else false
                                                                    else false
                                                                    else false
                                                                    else false)
                                                                    a6)
                                                                    else false
                                                                    else false
                                                                    else false
                                                                    else false)
                                                                    a5)
                                                                    else false
                                                                    else false
                                                                    else false
                                                                    else false)
                                                                    a4)
                                                                    else false
                                                                    else false)
                                                                    a3)
                                                                    else false
                                                                    else false
                                                                    else false
                                                                    else false
                                                                    else false
                                                                    else false)
                                                                    a2)
                                                                    else false
                                                                    else false
                                                                    else false
                                                                    else false)
                                                                    a1)
                                                                    else false
                                                                    else false
                                                                    else false
                                                                   else false
                                                            else false)
                                                            a0)
                                             else false
               else false)
               a)
        | _ -> false)
     | _ -> false)

(** val walk : node -> lit_entry list **)

let rec walk = function
| Node (t, cs) ->
  if skipped (Node (t, cs))
  then []
  else app (here (Node (t, cs)))
         (let rec go i = function
          | [] -> []
          | c :: l' ->
            app (if not_an_expression t i c then [] else walk c) (go (S i) l')
          in go O cs)

(** val sp_eqb : sp -> sp -> bool **)

let sp_eqb a b =
  (&&) (N.eqb (fst a) (fst b)) (N.eqb (snd a) (snd b))

(** val same_entry : lit_entry -> lit_entry -> bool **)

let same_entry a b =
  (&&) (eqb1 a.le_value b.le_value) (sp_eqb a.le_span b.le_span)

(** val dedup :
    lit_entry list -> lit_entry list -> lit_entry list -> lit_entry list **)

let rec dedup seen acc1 = function
| [] -> rev0 acc1
| e :: l' ->
  if existsb (same_entry e) seen
  then dedup seen acc1 l'
  else dedup (e :: seen) (e :: acc1) l'

(** val collect : bool -> node -> lit_entry list option **)

let collect enabled prog =
  if enabled then Some (dedup [] [] (walk prog)) else None

module NilEmpty =
 struct
  (** val string_of_uint : uint -> char list **)

  let rec string_of_uint = function
  | Nil -> []
  | D0 d0 -> '0'::(string_of_uint d0)
  | D1 d0 -> '1'::(string_of_uint d0)
  | D2 d0 -> '2'::(string_of_uint d0)
  | D3 d0 -> '3'::(string_of_uint d0)
  | D4 d0 -> '4'::(string_of_uint d0)
  | D5 d0 -> '5'::(string_of_uint d0)
  | D6 d0 -> '6'::(string_of_uint d0)
  | D7 d0 -> '7'::(string_of_uint d0)
  | D8 d0 -> '8'::(string_of_uint d0)
  | D9 d0 -> '9'::(string_of_uint d0)
 end

type status =
| Modified
| NotModified
| Cancelled

(** val status_eqb : status -> status -> bool **)

let status_eqb a b =
  match a with
  | Modified -> (match b with
                 | Modified -> true
                 | _ -> false)
  | NotModified -> (match b with
                    | NotModified -> true
                    | _ -> false)
  | Cancelled -> (match b with
                  | Cancelled -> true
                  | _ -> false)

type tstate = { t_status : status; t_msg : char list option; t_count : 
                n; t_tags : char list list }

(** val t_init : tstate **)

let t_init =
  { t_status = NotModified; t_msg = None; t_count = N0; t_tags = [] }

(** val telemetry_inc : verbosity -> char list option -> tstate -> tstate **)

let telemetry_inc v tag0 t =
  match v with
  | VOff -> t
  | VDebug ->
    { t_status = t.t_status; t_msg = t.t_msg; t_count = (N.succ t.t_count);
      t_tags = (match tag0 with
                | Some g -> g :: t.t_tags
                | None -> t.t_tags) }
  | _ ->
    { t_status = t.t_status; t_msg = t.t_msg; t_count = (N.succ t.t_count);
      t_tags = t.t_tags }

(** val update_status :
    verbosity -> status -> char list option -> tstate -> tstate **)

let update_status v st tag0 t =
  if status_eqb t.t_status Cancelled
  then t
  else let t1 = if status_eqb st Modified then telemetry_inc v tag0 t else t
       in
       if status_eqb st NotModified
       then t1
       else { t_status = st; t_msg = t1.t_msg; t_count = t1.t_count; t_tags =
              t1.t_tags }

type pstate = { p_ctr : n; p_idents : char list list; p_dup : bool }

(** val p_init : pstate **)

let p_init =
  { p_ctr = N0; p_idents = []; p_dup = false }

(** val n_to_string : n -> char list **)

let n_to_string n0 =
  NilEmpty.string_of_uint (N.to_uint n0)

(** val temp_name : config -> n -> char list **)

let temp_name c n0 =
  append (var_prefix c) (n_to_string n0)

(** val register_ident : char list -> pstate -> pstate **)

let register_ident name p =
  if existsb (eqb1 name) p.p_idents
  then p
  else { p_ctr = p.p_ctr; p_idents = (app p.p_idents (name :: [])); p_dup =
         p.p_dup }

(** val next_ident : pstate -> n * pstate **)

let next_ident p =
  (p.p_ctr, { p_ctr = (N.succ p.p_ctr); p_idents = p.p_idents; p_dup =
    p.p_dup })

(** val reset_counter : pstate -> pstate **)

let reset_counter p =
  { p_ctr = N0; p_idents = p.p_idents; p_dup = p.p_dup }

(** val register_variable : config -> node -> pstate -> pstate **)

let register_variable c id p =
  match ident_sym id with
  | Some sym ->
    if (&&) (negb (is_dummy (span_of id))) (prefix (var_prefix c) sym)
    then { p_ctr = p.p_ctr; p_idents = p.p_idents; p_dup = true }
    else p
  | None -> p

type ident_kind =
| IKExpr
| IKSpread

(** val assign_right : node -> ident_kind -> node **)

let assign_right e = function
| IKExpr -> e
| IKSpread -> mk_array dUMMY ((mk_spread_arg e) :: [])

(** val expr_or_spread : node -> ident_kind -> node **)

let expr_or_spread e = function
| IKExpr -> mk_arg e
| IKSpread -> mk_spread_arg e

type acc = { a_assigns : node list; a_args : node list }

(** val acc0 : acc **)

let acc0 =
  { a_assigns = []; a_args = [] }

(** val push_assign : node -> acc -> acc **)

let push_assign x a =
  { a_assigns = (app a.a_assigns (x :: [])); a_args = a.a_args }

(** val push_arg : node -> acc -> acc **)

let push_arg x a =
  { a_assigns = a.a_assigns; a_args = (app a.a_args (x :: [])) }

(** val get_temporal :
    config -> node -> sp -> ident_kind -> acc -> pstate -> (node
    option * acc) * pstate **)

let get_temporal c operand span ik a p =
  if is_lit operand
  then ((None, a), p)
  else let (n0, p1) = next_ident p in
       let name = temp_name c n0 in
       let asg =
         mk_assign span ('='::[]) (mk_binding_ident dUMMY name)
           (assign_right operand ik)
       in
       (((Some (mk_ident dUMMY name)), (push_assign asg a)),
       (register_ident name p1))

(** val get_ident :
    config -> node -> sp -> ident_kind -> acc -> pstate -> (node
    option * acc) * pstate **)

let get_ident c operand span ik a p =
  let (p0, p1) = get_temporal c operand span ik a p in
  let (id, a1) = p0 in
  let id_expr = match id with
                | Some i -> i
                | None -> operand in
  ((id, (push_arg (expr_or_spread id_expr ik) a1)), p1)

type ident_mode =
| Replace
| Keep

(** val get_ident_mode : node -> ident_mode **)

let get_ident_mode operand =
  if (||) (is_ident operand) (is_lit operand) then Keep else Replace

(** val replace_default :
    config -> node -> sp -> ident_kind -> acc -> pstate ->
    (node * acc) * pstate **)

let replace_default c e span ik a p =
  let (p0, p1) = get_ident c e span ik a p in
  let (id, a1) = p0 in (((match id with
                          | Some i -> i
                          | None -> e), a1), p1)

(** val bin_op : node -> char list option **)

let bin_op = function
| Node (t, cs) ->
  (match t with
   | K (k, _, _) ->
     (match k with
      | KBin ->
        (match cs with
         | [] -> None
         | n1 :: _ ->
           let Node (t0, cs0) = n1 in
           (match t0 with
            | Str op -> (match cs0 with
                         | [] -> Some op
                         | _ :: _ -> None)
            | _ -> None))
      | _ -> None)
   | _ -> None)

(** val is_op : (node -> char list option) -> char list -> node -> bool **)

let is_op view op n0 =
  match view n0 with
  | Some o -> eqb1 o op
  | None -> false

(** val replace_expr_noexpand :
    config -> node -> ident_mode -> sp -> ident_kind -> acc -> pstate ->
    (node * acc) * pstate **)

let replace_expr_noexpand c e im span ik a p =
  if is_lit e
  then ((e, (push_arg (expr_or_spread e ik) a)), p)
  else if is_ident e
       then (match im with
             | Replace -> replace_default c e span ik a p
             | Keep -> ((e, (push_arg (expr_or_spread e ik) a)), p))
       else (match bin_op e with
             | Some op ->
               if eqb1 op ('+'::[])
               then ((e, a), p)
               else replace_default c e span ik a p
             | None -> replace_default c e span ik a p)

(** val replace_arg_noexpand :
    config -> node -> ident_mode -> sp -> acc -> pstate ->
    (node * acc) * pstate **)

let replace_arg_noexpand c arg im span a p =
  let Node (t, cs) = arg in
  (match t with
   | Obj ->
     (match cs with
      | [] -> ((arg, a), p)
      | spr :: l ->
        (match l with
         | [] -> ((arg, a), p)
         | e :: l0 ->
           (match l0 with
            | [] ->
              let ik = if arg_is_spread arg then IKSpread else IKExpr in
              let (p0, p1) = replace_expr_noexpand c e im span ik a p in
              let (e', a1) = p0 in
              (((Node (Obj, (spr :: (e' :: [])))), a1), p1)
            | _ :: _ -> ((arg, a), p))))
   | _ -> ((arg, a), p))

(** val replace_elems :
    config -> node list -> ident_mode -> sp -> acc -> pstate -> (node
    list * acc) * pstate **)

let rec replace_elems c elems im span a p =
  match elems with
  | [] -> (([], a), p)
  | el :: rest ->
    let (p0, p1) =
      let Node (t, _) = el in
      (match t with
       | Nul -> ((el, a), p)
       | _ -> replace_arg_noexpand c el im span a p)
    in
    let (el', a1) = p0 in
    let (p2, p3) = replace_elems c rest im span a1 p1 in
    let (rest', a2) = p2 in (((el' :: rest'), a2), p3)

(** val replace_expr :
    config -> node -> ident_mode -> sp -> ident_kind -> bool -> acc -> pstate
    -> (node * acc) * pstate **)

let replace_expr c e im span ik expand a p =
  if (||) (is_lit e) (is_ident e)
  then replace_expr_noexpand c e im span ik a p
  else (match bin_op e with
        | Some _ -> replace_expr_noexpand c e im span ik a p
        | None ->
          let Node (t, cs) = e in
          (match t with
           | K (k, lo, hi) ->
             (match k with
              | KArray ->
                (match cs with
                 | [] -> replace_default c e span ik a p
                 | n0 :: l ->
                   let Node (t0, elems) = n0 in
                   (match t0 with
                    | Lst ->
                      (match l with
                       | [] ->
                         if expand
                         then let (p0, p1) = replace_elems c elems im span a p
                              in
                              let (elems', a1) = p0 in
                              (((Node ((K (KArray, lo, hi)), ((Node (Lst,
                              elems')) :: []))), a1), p1)
                         else replace_default c e span ik a p
                       | _ :: _ -> replace_default c e span ik a p)
                    | _ -> replace_default c e span ik a p))
              | _ -> replace_default c e span ik a p)
           | _ -> replace_default c e span ik a p))

(** val replace_arg :
    config -> node -> ident_mode -> sp -> bool -> acc -> pstate ->
    (node * acc) * pstate **)

let replace_arg c arg im span expand a p =
  let Node (t, cs) = arg in
  (match t with
   | Obj ->
     (match cs with
      | [] -> ((arg, a), p)
      | spr :: l ->
        (match l with
         | [] -> ((arg, a), p)
         | e :: l0 ->
           (match l0 with
            | [] ->
              let ik = if arg_is_spread arg then IKSpread else IKExpr in
              let (p0, p1) = replace_expr c e im span ik expand a p in
              let (e', a1) = p0 in
              (((Node (Obj, (spr :: (e' :: [])))), a1), p1)
            | _ :: _ -> ((arg, a), p))))
   | _ -> ((arg, a), p))

(** val replace_args :
    config -> node list -> sp -> bool -> acc -> pstate -> (node
    list * acc) * pstate **)

let rec replace_args c args span expand a p =
  match args with
  | [] -> (([], a), p)
  | x :: rest ->
    let (p0, p1) = replace_arg c x Replace span expand a p in
    let (x', a1) = p0 in
    let (p2, p3) = replace_args c rest span expand a1 p1 in
    let (rest', a2) = p2 in (((x' :: rest'), a2), p3)

(** val dd_callee : char list -> sp -> node **)

let dd_callee method_name span =
  mk_member span (mk_ident span gen_DD_GLOBAL_NAMESPACE)
    (mk_ident_name span method_name)

(** val dd_call : node -> node list -> char list -> sp -> node **)

let dd_call e args method_name span =
  mk_call span (dd_callee method_name span) ((mk_arg e) :: args)

(** val dd_paren : node -> acc -> char list -> sp -> node **)

let dd_paren e a method_name span =
  let call = dd_call e a.a_args method_name span in
  (match a.a_assigns with
   | [] -> call
   | n0 :: l -> mk_paren span (mk_seq span (app (n0 :: l) (call :: []))))

(** val arg_is_nonlit : node -> bool **)

let arg_is_nonlit arg =
  match arg_expr arg with
  | Some e -> negb (is_lit e)
  | None -> true

(** val binary_transform :
    config -> node -> pstate -> node option * pstate **)

let binary_transform c e p =
  let Node (t, cs) = e in
  (match t with
   | K (k, lo, hi) ->
     (match k with
      | KBin ->
        (match cs with
         | [] -> (None, p)
         | opn :: l0 ->
           (match l0 with
            | [] -> (None, p)
            | l :: l1 ->
              (match l1 with
               | [] -> (None, p)
               | r :: l2 ->
                 (match l2 with
                  | [] ->
                    let span = (lo, hi) in
                    let (p0, p1) =
                      replace_expr c l (get_ident_mode r) span IKExpr false
                        acc0 p
                    in
                    let (l', a1) = p0 in
                    let (p2, p3) =
                      replace_expr c r (get_ident_mode l') span IKExpr false
                        a1 p1
                    in
                    let (r', a2) = p2 in
                    if existsb arg_is_nonlit a2.a_args
                    then ((Some
                           (dd_paren (Node ((K (KBin, lo, hi)),
                             (opn :: (l' :: (r' :: []))))) a2 (plus_name c)
                             span)), p3)
                    else (None, p3)
                  | _ :: _ -> (None, p)))))
      | _ -> (None, p))
   | _ -> (None, p))

(** val simple_target_to_expr : node -> node **)

let simple_target_to_expr t = match t with
| Node (t0, cs) ->
  (match t0 with
   | K (k, lo, hi) ->
     (match k with
      | KIdent ->
        (match cs with
         | [] -> t
         | cx :: l ->
           (match l with
            | [] -> t
            | sym :: l0 ->
              (match l0 with
               | [] -> t
               | opt :: l1 ->
                 (match l1 with
                  | [] -> t
                  | _ :: l2 ->
                    (match l2 with
                     | [] ->
                       Node ((K (KIdent, lo, hi)),
                         (cx :: (sym :: (opt :: []))))
                     | _ :: _ -> t)))))
      | _ -> t)
   | _ -> t)

(** val is_pat_target : node -> bool **)

let is_pat_target t =
  (||) ((||) (is_kind KArrayPat t) (is_kind KObjectPat t))
    (is_kind (KOther ('I'::('n'::('v'::('a'::('l'::('i'::('d'::[])))))))) t)

(** val hoist_key :
    config -> node -> sp -> acc -> pstate -> (node * acc) * pstate **)

let hoist_key c prop span a p =
  let Node (t, cs) = prop in
  (match t with
   | K (k, clo, chi) ->
     (match k with
      | KComputed ->
        (match cs with
         | [] -> ((prop, a), p)
         | e :: l ->
           (match l with
            | [] ->
              if (||) (is_ident e) (is_lit e)
              then ((prop, a), p)
              else let (p0, p2) = get_temporal c e span IKExpr a p in
                   let (id, a2) = p0 in
                   (((Node ((K (KComputed, clo, chi)),
                   ((match id with
                     | Some i -> i
                     | None -> e) :: []))), a2), p2)
            | _ :: _ -> ((prop, a), p)))
      | _ -> ((prop, a), p))
   | _ -> ((prop, a), p))

(** val hoist_member :
    config -> node -> sp -> acc -> pstate -> ((node * acc) * pstate) option **)

let hoist_member c t span a p =
  let Node (t0, cs) = t in
  (match t0 with
   | K (k, lo, hi) ->
     (match k with
      | KMember ->
        (match cs with
         | [] -> None
         | obj :: l ->
           (match l with
            | [] -> None
            | prop :: l0 ->
              (match l0 with
               | [] ->
                 if (||) (is_ident obj) (is_kind KThis obj)
                 then let p0 = (obj, a) in
                      let (obj', a1) = p0 in
                      let (p1, p2) = hoist_key c prop span a1 p in
                      let (prop', a2) = p1 in
                      Some (((Node ((K (KMember, lo, hi)),
                      (obj' :: (prop' :: [])))), a2), p2)
                 else let (p0, p1) = get_temporal c obj span IKExpr a p in
                      let (id, a1) = p0 in
                      let p2 = ((match id with
                                 | Some i -> i
                                 | None -> obj), a1)
                      in
                      let (obj', a2) = p2 in
                      let (p3, p4) = hoist_key c prop span a2 p1 in
                      let (prop', a3) = p3 in
                      Some (((Node ((K (KMember, lo, hi)),
                      (obj' :: (prop' :: [])))), a3), p4)
               | _ :: _ -> None)))
      | KSuperProp ->
        (match cs with
         | [] -> None
         | obj :: l ->
           (match l with
            | [] -> None
            | prop :: l0 ->
              (match l0 with
               | [] ->
                 let (p0, p2) = hoist_key c prop span a p in
                 let (prop', a2) = p0 in
                 Some (((Node ((K (KSuperProp, lo, hi)),
                 (obj :: (prop' :: [])))), a2), p2)
               | _ :: _ -> None)))
      | _ -> None)
   | _ -> None)

(** val peel_parens : node -> node **)

let rec peel_parens n0 = match n0 with
| Node (t, cs) ->
  (match t with
   | K (k, _, _) ->
     (match k with
      | KParen ->
        (match cs with
         | [] -> n0
         | e :: l -> (match l with
                      | [] -> peel_parens e
                      | _ :: _ -> n0))
      | _ -> n0)
   | _ -> n0)

(** val hoist_target :
    config -> node -> sp -> acc -> pstate -> (node * acc) * pstate **)

let hoist_target c lhs span a p =
  let inner = if is_kind KParen lhs then peel_parens lhs else lhs in
  (match hoist_member c inner span a p with
   | Some r -> r
   | None -> ((lhs, a), p))

(** val assign_transform :
    config -> node -> pstate -> node option * pstate **)

let assign_transform c e p =
  let Node (t, cs) = e in
  (match t with
   | K (k, lo, hi) ->
     (match k with
      | KAssign ->
        (match cs with
         | [] -> (None, p)
         | _ :: l ->
           (match l with
            | [] -> (None, p)
            | lhs :: l0 ->
              (match l0 with
               | [] -> (None, p)
               | rhs :: l1 ->
                 (match l1 with
                  | [] ->
                    if is_pat_target lhs
                    then (None, p)
                    else let span = (lo, hi) in
                         let (p1, p0) = hoist_target c lhs span acc0 p in
                         let (lhs', hoisted) = p1 in
                         let right =
                           if is_op bin_op ('+'::[]) rhs
                           then mk_paren (span_of rhs) rhs
                           else rhs
                         in
                         let binary =
                           mk_bin span ('+'::[]) (simple_target_to_expr lhs')
                             right
                         in
                         let (o, p2) = binary_transform c binary p0 in
                         (match o with
                          | Some e' ->
                            let new_assign = mk_assign span ('='::[]) lhs' e'
                            in
                            ((Some
                            (match hoisted.a_assigns with
                             | [] -> new_assign
                             | n0 :: l2 ->
                               mk_paren span
                                 (mk_seq span
                                   (app (n0 :: l2) (new_assign :: []))))), p2)
                          | None -> (None, p2))
                  | _ :: _ -> (None, p)))))
      | _ -> (None, p))
   | _ -> (None, p))

(** val tpl_replace :
    config -> node list -> acc -> pstate -> (node list * acc) * pstate **)

let rec tpl_replace c es a p =
  match es with
  | [] -> (([], a), p)
  | e :: rest ->
    let (p0, p1) = replace_expr c e Replace (span_of e) IKExpr false a p in
    let (e', a1) = p0 in
    let (p2, p3) = tpl_replace c rest a1 p1 in
    let (rest', a2) = p2 in (((e' :: rest'), a2), p3)

(** val template_transform :
    config -> node -> pstate -> node option * pstate **)

let template_transform c e p =
  let Node (t, cs) = e in
  (match t with
   | K (k, lo, hi) ->
     (match k with
      | KTpl ->
        (match cs with
         | [] -> (None, p)
         | n0 :: l ->
           let Node (t0, es) = n0 in
           (match t0 with
            | Lst ->
              (match l with
               | [] -> (None, p)
               | quasis :: l0 ->
                 (match l0 with
                  | [] ->
                    let (p0, p1) = tpl_replace c es acc0 p in
                    let (es', a) = p0 in
                    ((Some
                    (dd_paren (Node ((K (KTpl, lo, hi)), ((Node (Lst,
                      es')) :: (quasis :: [])))) a (tpl_name c) (lo, hi))),
                    p1)
                  | _ :: _ -> (None, p)))
            | _ -> (None, p)))
      | _ -> (None, p))
   | _ -> (None, p))

(** val arrow_transform : node -> node **)

let arrow_transform e = match e with
| Node (t, cs) ->
  (match t with
   | K (k, lo, hi) ->
     (match k with
      | KArrow ->
        (match cs with
         | [] -> e
         | cx :: l ->
           (match l with
            | [] -> e
            | params :: l0 ->
              (match l0 with
               | [] -> e
               | body :: l1 ->
                 (match l1 with
                  | [] -> e
                  | asy :: l2 ->
                    (match l2 with
                     | [] -> e
                     | gen :: l3 ->
                       (match l3 with
                        | [] -> e
                        | tp :: l4 ->
                          (match l4 with
                           | [] -> e
                           | rt :: l5 ->
                             (match l5 with
                              | [] ->
                                if is_kind KBlock body
                                then e
                                else Node ((K (KArrow, lo, hi)),
                                       (cx :: (params :: ((mk_block dUMMY
                                                            ((mk_return dUMMY
                                                               body) :: [])) :: (asy :: (gen :: (tp :: (rt :: []))))))))
                              | _ :: _ -> e))))))))
      | _ -> e)
   | _ -> e)

(** val is_call_or_apply : char list -> bool **)

let is_call_or_apply name =
  (||) (eqb1 name gen_CALL) (eqb1 name gen_APPLY)

(** val member_parts : node -> (node * node) option **)

let member_parts = function
| Node (t, cs) ->
  (match t with
   | K (k, _, _) ->
     (match k with
      | KMember ->
        (match cs with
         | [] -> None
         | obj :: l ->
           (match l with
            | [] -> None
            | prop :: l0 ->
              (match l0 with
               | [] -> Some (obj, prop)
               | _ :: _ -> None)))
      | _ -> None)
   | _ -> None)

(** val member_prop_is_prototype : node -> bool **)

let member_prop_is_prototype m =
  match member_parts m with
  | Some p ->
    let (_, prop) = p in
    (match ident_name_sym prop with
     | Some s -> eqb1 s gen_PROTOTYPE
     | None -> false)
  | None -> false

(** val prototype_method : node -> (char list * sp) option **)

let prototype_method m =
  match member_parts m with
  | Some p ->
    let (_, prop) = p in
    (match ident_name_sym prop with
     | Some s -> Some (s, (span_of prop))
     | None -> None)
  | None -> None

(** val is_undefined_or_null : node -> bool **)

let is_undefined_or_null e =
  match ident_sym e with
  | Some s ->
    (||)
      (eqb1 s
        ('u'::('n'::('d'::('e'::('f'::('i'::('n'::('e'::('d'::[]))))))))))
      (eqb1 s ('n'::('u'::('l'::('l'::[])))))
  | None -> false

(** val arg_lit_or_undef : node -> bool **)

let arg_lit_or_undef arg =
  match arg_expr arg with
  | Some e -> (||) (is_lit e) (is_undefined_or_null e)
  | None -> false

(** val all_args_are_literal : node list -> bool **)

let all_args_are_literal args =
  forallb arg_lit_or_undef args

(** val invalid_args : char list -> node list -> bool **)

let invalid_args name args =
  if negb (eqb1 name ('a'::('p'::('p'::('l'::('y'::[]))))))
  then false
  else (match args with
        | [] -> true
        | this :: l ->
          (match l with
           | [] -> true
           | arr :: _ ->
             (match arg_expr arr with
              | Some n0 ->
                let Node (t, cs) = n0 in
                (match t with
                 | K (k, _, _) ->
                   (match k with
                    | KArray ->
                      (match cs with
                       | [] -> if arg_is_spread arr then false else true
                       | n1 :: l0 ->
                         let Node (t0, elems) = n1 in
                         (match t0 with
                          | Lst ->
                            (match l0 with
                             | [] ->
                               (&&)
                                 (match arg_expr this with
                                  | Some t1 -> is_lit t1
                                  | None -> false)
                                 (forallb (fun el ->
                                   let Node (t1, _) = el in
                                   (match t1 with
                                    | Nul -> false
                                    | _ -> arg_lit_or_undef el))
                                   (skipn (S O) elems))
                             | _ :: _ ->
                               if arg_is_spread arr then false else true)
                          | _ -> if arg_is_spread arr then false else true))
                    | _ -> if arg_is_spread arr then false else true)
                 | _ -> if arg_is_spread arr then false else true)
              | None -> if arg_is_spread arr then false else true)))

(** val call_parts : node -> (((node * node) * node list) * node) option **)

let call_parts = function
| Node (t, cs) ->
  (match t with
   | K (k, _, _) ->
     (match k with
      | KCall ->
        (match cs with
         | [] -> None
         | cx :: l ->
           (match l with
            | [] -> None
            | callee :: l0 ->
              (match l0 with
               | [] -> None
               | n0 :: l1 ->
                 let Node (t0, args) = n0 in
                 (match t0 with
                  | Lst ->
                    (match l1 with
                     | [] -> None
                     | targs :: l2 ->
                       (match l2 with
                        | [] -> Some (((cx, callee), args), targs)
                        | _ :: _ -> None))
                  | _ -> None))))
      | _ -> None)
   | _ -> None)

type proto_parts =
| PPNone
| PPSpreadThis of char list * sp
| PPThis of node * char list * sp * node

(** val prototype_parts :
    config -> node -> node -> char list -> proto_parts **)

let prototype_parts c call member name =
  if negb (is_call_or_apply name)
  then PPNone
  else (match prototype_method member with
        | Some p ->
          let (method0, mspan) = p in
          (match call_parts call with
           | Some p0 ->
             let (p1, _) = p0 in
             let (_, args) = p1 in
             (match args with
              | [] -> PPNone
              | this :: rest ->
                if arg_is_spread this
                then PPSpreadThis (method0, mspan)
                else if invalid_args name args
                     then PPNone
                     else (match arg_expr this with
                           | Some this_expr ->
                             if (&&) (is_lit this_expr)
                                  ((||)
                                    (negb (allows_literal_callers c method0))
                                    (all_args_are_literal rest))
                             then PPNone
                             else let cspan = span_of call in
                                  let new_callee =
                                    mk_member cspan this_expr
                                      (mk_ident_name mspan method0)
                                  in
                                  PPThis (this_expr, method0, mspan,
                                  (mk_call cspan new_callee rest))
                           | None -> PPNone))
           | None -> PPNone)
        | None -> PPNone)

(** val replace_callee_and_args :
    config -> node -> node option -> char list option -> acc -> pstate ->
    (node * acc) * pstate **)

let replace_callee_and_args c call ident_callee call_or_apply a p =
  let Node (t, cs) = call in
  (match t with
   | K (k, lo, hi) ->
     (match k with
      | KCall ->
        (match cs with
         | [] -> ((call, a), p)
         | cx :: l ->
           (match l with
            | [] -> ((call, a), p)
            | callee :: l0 ->
              (match l0 with
               | [] -> ((call, a), p)
               | n0 :: l1 ->
                 let Node (t0, args) = n0 in
                 (match t0 with
                  | Lst ->
                    (match l1 with
                     | [] -> ((call, a), p)
                     | targs :: l2 ->
                       (match l2 with
                        | [] ->
                          let span = (lo, hi) in
                          let prop_name =
                            match call_or_apply with
                            | Some s -> s
                            | None -> 'c'::('a'::('l'::('l'::[])))
                          in
                          let callee' =
                            match ident_callee with
                            | Some id ->
                              mk_member span id (mk_ident_name span prop_name)
                            | None -> callee
                          in
                          let (p0, p1) =
                            replace_args c args span
                              (eqb1 prop_name
                                ('a'::('p'::('p'::('l'::('y'::[])))))) a p
                          in
                          let (args', a1) = p0 in
                          (((Node ((K (KCall, lo, hi)),
                          (cx :: (callee' :: ((Node (Lst,
                          args')) :: (targs :: [])))))), a1), p1)
                        | _ :: _ -> ((call, a), p)))
                  | _ -> ((call, a), p)))))
      | _ -> ((call, a), p))
   | _ -> ((call, a), p))

(** val insert_this : node -> node -> node **)

let insert_this call this =
  let Node (t, cs) = call in
  (match t with
   | K (k, lo, hi) ->
     (match k with
      | KCall ->
        (match cs with
         | [] -> call
         | cx :: l ->
           (match l with
            | [] -> call
            | callee :: l0 ->
              (match l0 with
               | [] -> call
               | n0 :: l1 ->
                 let Node (t0, args) = n0 in
                 (match t0 with
                  | Lst ->
                    (match l1 with
                     | [] -> call
                     | targs :: l2 ->
                       (match l2 with
                        | [] ->
                          Node ((K (KCall, lo, hi)), (cx :: (callee :: ((Node
                            (Lst,
                            ((mk_arg this) :: args))) :: (targs :: [])))))
                        | _ :: _ -> call))
                  | _ -> call))))
      | _ -> call)
   | _ -> call)

(** val replace_with_member :
    config -> node -> char list -> sp -> node -> node option -> char list
    option -> pstate -> (node * char list) option * pstate **)

let replace_with_member c recv method0 mspan call member_opt call_or_apply p =
  match csi_get c method0 with
  | Some csi ->
    let span = span_of call in
    let (p0, p1) = get_temporal c recv span IKExpr acc0 p in
    let (id_opt, a1) = p0 in
    let ident_replacement = match id_opt with
                            | Some i -> i
                            | None -> recv in
    let member =
      match member_opt with
      | Some m -> m
      | None -> mk_member span ident_replacement (mk_ident_name mspan method0)
    in
    let (p2, p3) = get_ident c member span IKExpr a1 p1 in
    let (callee_opt, a2) = p2 in
    let a3 = push_arg (mk_arg ident_replacement) a2 in
    let callee_expr = match callee_opt with
                      | Some i -> i
                      | None -> recv in
    let (p4, p5) =
      replace_callee_and_args c call (Some callee_expr) call_or_apply a3 p3
    in
    let (call', a4) = p4 in
    let call'' = insert_this call' ident_replacement in
    ((Some ((dd_paren call'' a4 csi.m_dst span), method0)), p5)
  | None -> (None, p)

(** val replace_spread_with_member :
    config -> char list -> node -> node -> char list -> pstate ->
    (node * char list) option * pstate **)

let replace_spread_with_member c method0 call member call_or_apply p =
  match csi_get c method0 with
  | Some csi ->
    let span = span_of call in
    let (p0, p1) = get_ident c member span IKExpr acc0 p in
    let (callee_opt, a1) = p0 in
    (match callee_opt with
     | Some callee ->
       let (p2, p3) =
         replace_callee_and_args c call (Some callee) (Some call_or_apply) a1
           p1
       in
       let (call', a2) = p2 in
       ((Some ((dd_paren call' a2 csi.m_dst span), method0)), p3)
     | None -> (None, p1))
  | None -> (None, p)

(** val replace_without_callee :
    config -> node -> node -> pstate -> (node * char list) option * pstate **)

let replace_without_callee c callee_ident call p =
  match ident_sym callee_ident with
  | Some name ->
    (match csi_get c name with
     | Some csi ->
       if csi.m_awc
       then let span = span_of call in
            let a0 =
              push_arg
                (mk_arg
                  (mk_ident span
                    ('u'::('n'::('d'::('e'::('f'::('i'::('n'::('e'::('d'::[])))))))))))
                (push_arg (mk_arg callee_ident) acc0)
            in
            let (p0, p1) = replace_callee_and_args c call None None a0 p in
            let (call', a1) = p0 in
            ((Some ((dd_paren call' a1 csi.m_dst span), name)), p1)
       else (None, p)
     | None -> (None, p))
  | None -> (None, p)

(** val replace_prototype :
    config -> node -> node -> char list -> pstate -> (node * char list)
    option * pstate **)

let replace_prototype c call member_obj name p =
  match prototype_parts c call member_obj name with
  | PPNone -> (None, p)
  | PPSpreadThis (method0, _) ->
    replace_spread_with_member c method0 call member_obj name p
  | PPThis (this_expr, method0, mspan, new_call) ->
    replace_with_member c this_expr method0 mspan new_call (Some member_obj)
      (Some name) p

(** val receiver_kind_ok : node -> bool **)

let receiver_kind_ok obj =
  (||) ((||) ((||) (is_ident obj) (is_kind KCall obj)) (is_kind KParen obj))
    (is_kind KArray obj)

(** val call_transform :
    config -> node -> pstate -> (node * char list) option * pstate **)

let call_transform c call p =
  match call_parts call with
  | Some p0 ->
    let (p1, _) = p0 in
    let (p2, _) = p1 in
    let (_, callee) = p2 in
    (match member_parts callee with
     | Some p3 ->
       let (obj, prop) = p3 in
       (match ident_name_sym prop with
        | Some name ->
          if is_lit obj
          then if allows_literal_callers c name
               then replace_with_member c obj name (span_of prop) call None
                      None p
               else (None, p)
          else if receiver_kind_ok obj
               then replace_with_member c obj name (span_of prop) call None
                      None p
               else if is_kind KMember obj
                    then if is_call_or_apply name
                         then replace_prototype c call obj name p
                         else if negb (member_prop_is_prototype obj)
                              then replace_with_member c obj name
                                     (span_of prop) call None None p
                              else (None, p)
                    else (None, p)
        | None -> (None, p))
     | None ->
       if is_ident callee
       then replace_without_callee c callee call p
       else (None, p))
  | None -> (None, p)

type ocstate = { oc_assigns : node list; oc_new_ident : node option;
                 oc_found : bool; oc_p : pstate }

(** val oc_get_ident : config -> node -> ocstate -> node option * ocstate **)

let oc_get_ident c operand s =
  let (p0, p) =
    get_ident c operand dUMMY IKExpr { a_assigns = s.oc_assigns; a_args =
      [] } s.oc_p
  in
  let (id, a) = p0 in
  (id, { oc_assigns = a.a_assigns; oc_new_ident = s.oc_new_ident; oc_found =
  s.oc_found; oc_p = p })

(** val oc_set_new_ident : node -> ocstate -> ocstate **)

let oc_set_new_ident id s =
  { oc_assigns = s.oc_assigns; oc_new_ident = (Some id); oc_found =
    s.oc_found; oc_p = s.oc_p }

(** val oc_set_found : ocstate -> ocstate **)

let oc_set_found s =
  { oc_assigns = s.oc_assigns; oc_new_ident = s.oc_new_ident; oc_found =
    true; oc_p = s.oc_p }

(** val oc_call_from_base :
    config -> node -> bool -> ocstate -> node option * ocstate **)

let oc_call_from_base c base optional s =
  let Node (t, cs) = base in
  (match t with
   | K (k, _, _) ->
     (match k with
      | KCall ->
        (match cs with
         | [] -> (None, s)
         | cx :: l ->
           (match l with
            | [] -> (None, s)
            | callee :: l0 ->
              (match l0 with
               | [] -> (None, s)
               | n0 :: l1 ->
                 let Node (t0, args) = n0 in
                 (match t0 with
                  | Lst ->
                    (match l1 with
                     | [] -> (None, s)
                     | targs :: l2 ->
                       (match l2 with
                        | [] ->
                          if optional
                          then (match member_parts callee with
                                | Some p ->
                                  let (obj, prop) = p in
                                  let (obj_id, s1) = oc_get_ident c obj s in
                                  (match obj_id with
                                   | Some oid ->
                                     let new_member = mk_member dUMMY oid prop
                                     in
                                     let (mem_id, s2) =
                                       oc_get_ident c new_member s1
                                     in
                                     (match mem_id with
                                      | Some mid ->
                                        let callee' =
                                          mk_member dUMMY mid
                                            (mk_ident_name dUMMY
                                              ('c'::('a'::('l'::('l'::[])))))
                                        in
                                        ((Some
                                        (mk KCall dUMMY
                                          (cx :: (callee' :: ((Node (Lst,
                                          ((mk_arg oid) :: args))) :: (targs :: [])))))),
                                        (oc_set_new_ident mid s2))
                                      | None -> (None, s2))
                                   | None -> (None, s1))
                                | None ->
                                  let (id, s1) = oc_get_ident c callee s in
                                  (match id with
                                   | Some nid ->
                                     (match s1.oc_assigns with
                                      | [] -> (None, s1)
                                      | _ :: _ ->
                                        ((Some
                                          (mk KCall dUMMY
                                            (cx :: (nid :: ((Node (Lst,
                                            args)) :: (targs :: [])))))),
                                          (oc_set_new_ident nid s1)))
                                   | None -> (None, s1)))
                          else ((Some
                                 (mk KCall dUMMY (cx :: (callee :: ((Node
                                   (Lst, args)) :: (targs :: [])))))), s)
                        | _ :: _ -> (None, s)))
                  | _ -> (None, s)))))
      | _ -> (None, s))
   | _ -> (None, s))

(** val oc_member_from_base :
    config -> node -> bool -> ocstate -> node option * ocstate **)

let oc_member_from_base c base optional s =
  let Node (t, cs) = base in
  (match t with
   | K (k, _, _) ->
     (match k with
      | KMember ->
        (match cs with
         | [] -> (None, s)
         | obj :: l ->
           (match l with
            | [] -> (None, s)
            | prop :: l0 ->
              (match l0 with
               | [] ->
                 if optional
                 then let (id, s1) = oc_get_ident c obj s in
                      (match id with
                       | Some nid ->
                         ((Some (mk_member dUMMY nid prop)),
                           (oc_set_new_ident nid s1))
                       | None -> (None, s1))
                 else ((Some base), s)
               | _ :: _ -> (None, s))))
      | _ -> (None, s))
   | _ -> (None, s))

(** val optchain_parts : node -> (bool * node) option **)

let optchain_parts = function
| Node (t, cs) ->
  (match t with
   | K (k, _, _) ->
     (match k with
      | KOptChain ->
        (match cs with
         | [] -> None
         | n0 :: l ->
           let Node (t0, cs0) = n0 in
           (match t0 with
            | Bln optional ->
              (match cs0 with
               | [] ->
                 (match l with
                  | [] -> None
                  | base :: l0 ->
                    (match l0 with
                     | [] -> Some (optional, base)
                     | _ :: _ -> None))
               | _ :: _ -> None)
            | _ -> None))
      | _ -> None)
   | _ -> None)

(** val oc_is_target : config -> node -> bool **)

let oc_is_target c e =
  match optchain_parts e with
  | Some p ->
    let (b, base) = p in
    if b
    then false
    else let Node (t, cs) = base in
         (match t with
          | K (k, _, _) ->
            (match k with
             | KCall ->
               (match cs with
                | [] -> false
                | _ :: l ->
                  (match l with
                   | [] -> false
                   | callee :: l0 ->
                     (match l0 with
                      | [] -> false
                      | _ :: l1 ->
                        (match l1 with
                         | [] -> false
                         | _ :: l2 ->
                           (match l2 with
                            | [] ->
                              (match optchain_parts callee with
                               | Some p0 ->
                                 let (_, inner_base) = p0 in
                                 (match member_parts inner_base with
                                  | Some p1 ->
                                    let (_, prop) = p1 in
                                    (match ident_name_sym prop with
                                     | Some name ->
                                       (match csi_get c name with
                                        | Some _ -> true
                                        | None -> false)
                                     | None -> false)
                                  | None -> false)
                               | None -> false)
                            | _ :: _ -> false)))))
             | _ -> false)
          | _ -> false)
  | None -> false

(** val map_st :
    (node -> 'a1 -> (node * 'a1) option) -> node list -> 'a1 -> (node
    list * 'a1) option **)

let rec map_st f l s =
  match l with
  | [] -> Some ([], s)
  | x :: rest ->
    (match f x s with
     | Some p ->
       let (x', s1) = p in
       (match map_st f rest s1 with
        | Some p0 -> let (rest', s2) = p0 in Some ((x' :: rest'), s2)
        | None -> None)
     | None -> None)

(** val oc_visit :
    config -> nat -> node -> ocstate -> (node * ocstate) option **)

let rec oc_visit c fuel n0 s =
  match fuel with
  | O -> None
  | S f ->
    let spine = fun n1 s0 ->
      let Node (t, cs) = n1 in
      (match t with
       | K (k, lo, hi) ->
         (match k with
          | KScript -> Some (n1, s0)
          | KModule -> Some (n1, s0)
          | KBlock -> Some (n1, s0)
          | KExprStmt -> Some (n1, s0)
          | KIf -> Some (n1, s0)
          | KReturn -> Some (n1, s0)
          | KVarDecl -> Some (n1, s0)
          | KVarDeclarator -> Some (n1, s0)
          | KEmptyStmt -> Some (n1, s0)
          | KBin -> Some (n1, s0)
          | KAssign -> Some (n1, s0)
          | KTpl -> Some (n1, s0)
          | KTplElem -> Some (n1, s0)
          | KTaggedTpl -> Some (n1, s0)
          | KCall ->
            (match cs with
             | [] -> Some (n1, s0)
             | cx :: l ->
               (match l with
                | [] -> Some (n1, s0)
                | callee :: l0 ->
                  (match l0 with
                   | [] -> Some (n1, s0)
                   | args :: l1 ->
                     (match l1 with
                      | [] -> Some (n1, s0)
                      | targs :: l2 ->
                        (match l2 with
                         | [] ->
                           if (||) (is_kind KSuper callee)
                                (is_kind KImport callee)
                           then Some (n1, s0)
                           else (match oc_visit c f callee s0 with
                                 | Some p ->
                                   let (callee', s') = p in
                                   Some ((Node ((K (KCall, lo, hi)),
                                   (cx :: (callee' :: (args :: (targs :: [])))))),
                                   s')
                                 | None -> None)
                         | _ :: _ -> Some (n1, s0))))))
          | KMember ->
            (match cs with
             | [] -> Some (n1, s0)
             | obj :: l ->
               (match l with
                | [] -> Some (n1, s0)
                | prop :: l0 ->
                  (match l0 with
                   | [] ->
                     (match oc_visit c f obj s0 with
                      | Some p ->
                        let (obj', s') = p in
                        Some ((Node ((K (KMember, lo, hi)),
                        (obj' :: (prop :: [])))), s')
                      | None -> None)
                   | _ :: _ -> Some (n1, s0))))
          | KOptChain ->
            (match cs with
             | [] -> Some (n1, s0)
             | opt :: l ->
               (match l with
                | [] -> Some (n1, s0)
                | n2 :: l0 ->
                  let Node (t0, cs0) = n2 in
                  (match t0 with
                   | K (k0, mlo, mhi) ->
                     (match k0 with
                      | KCall ->
                        (match cs0 with
                         | [] -> Some (n1, s0)
                         | cx :: l1 ->
                           (match l1 with
                            | [] -> Some (n1, s0)
                            | callee :: l2 ->
                              (match l2 with
                               | [] -> Some (n1, s0)
                               | args :: l3 ->
                                 (match l3 with
                                  | [] -> Some (n1, s0)
                                  | targs :: l4 ->
                                    (match l4 with
                                     | [] ->
                                       (match l0 with
                                        | [] ->
                                          (match oc_visit c f callee s0 with
                                           | Some p ->
                                             let (callee', s') = p in
                                             Some ((Node ((K (KOptChain, lo,
                                             hi)), (opt :: ((Node ((K (KCall,
                                             mlo, mhi)),
                                             (cx :: (callee' :: (args :: (targs :: [])))))) :: [])))),
                                             s')
                                           | None -> None)
                                        | _ :: _ -> Some (n1, s0))
                                     | _ :: _ -> Some (n1, s0))))))
                      | KMember ->
                        (match cs0 with
                         | [] -> Some (n1, s0)
                         | obj :: l1 ->
                           (match l1 with
                            | [] -> Some (n1, s0)
                            | prop :: l2 ->
                              (match l2 with
                               | [] ->
                                 (match l0 with
                                  | [] ->
                                    (match oc_visit c f obj s0 with
                                     | Some p ->
                                       let (obj', s') = p in
                                       Some ((Node ((K (KOptChain, lo, hi)),
                                       (opt :: ((Node ((K (KMember, mlo,
                                       mhi)),
                                       (obj' :: (prop :: [])))) :: [])))), s')
                                     | None -> None)
                                  | _ :: _ -> Some (n1, s0))
                               | _ :: _ -> Some (n1, s0))))
                      | _ -> Some (n1, s0))
                   | _ -> Some (n1, s0))))
          | _ -> Some (n1, s0))
       | _ -> Some (n1, s0))
    in
    (match optchain_parts n0 with
     | Some p ->
       let (optional, base) = p in
       if s.oc_found
       then let (repl, s1) =
              if is_kind KCall base
              then oc_call_from_base c base optional s
              else oc_member_from_base c base optional s
            in
            let n1 = match repl with
                     | Some r -> r
                     | None -> n0 in
            if optional then Some (n1, s1) else spine n1 s1
       else if oc_is_target c n0
            then oc_visit c f n0 (oc_set_found s)
            else spine n0 s
     | None -> spine n0 s)

(** val optchain_transform :
    config -> nat -> node -> pstate -> ((node * bool) * pstate) option **)

let optchain_transform c fuel e p =
  match oc_visit c fuel e { oc_assigns = []; oc_new_ident = None; oc_found =
          false; oc_p = p } with
  | Some p0 ->
    let (e', s) = p0 in
    (match s.oc_assigns with
     | [] -> Some ((e', false), s.oc_p)
     | _ :: _ ->
       (match s.oc_new_ident with
        | Some nid ->
          let test = mk_bin dUMMY ('='::('='::[])) nid (mk_null dUMMY) in
          let cond =
            mk_cond dUMMY test
              (mk_ident dUMMY
                ('u'::('n'::('d'::('e'::('f'::('i'::('n'::('e'::('d'::[]))))))))))
              e'
          in
          Some
          (((mk_paren (span_of e)
              (mk_seq (span_of e) (app s.oc_assigns (cond :: [])))), true),
          s.oc_p)
        | None -> Some ((e', false), s.oc_p)))
  | None -> None

type ostate = { o_p : pstate; o_t : tstate }

(** val o_with_p : pstate -> ostate -> ostate **)

let o_with_p p s =
  { o_p = p; o_t = s.o_t }

(** val o_update :
    config -> status -> char list option -> ostate -> ostate **)

let o_update c st tag0 s =
  { o_p = s.o_p; o_t = (update_status c.c_verbosity st tag0 s.o_t) }

(** val o_leave : bool -> ostate -> ostate **)

let o_leave root s =
  if root then { o_p = (reset_counter s.o_p); o_t = s.o_t } else s

(** val unary_op : node -> char list option **)

let unary_op = function
| Node (t, cs) ->
  (match t with
   | K (k, _, _) ->
     (match k with
      | KUnary ->
        (match cs with
         | [] -> None
         | n1 :: _ ->
           let Node (t0, cs0) = n1 in
           (match t0 with
            | Str op -> (match cs0 with
                         | [] -> Some op
                         | _ :: _ -> None)
            | _ -> None))
      | _ -> None)
   | _ -> None)

(** val assign_op : node -> char list option **)

let assign_op = function
| Node (t, cs) ->
  (match t with
   | K (k, _, _) ->
     (match k with
      | KAssign ->
        (match cs with
         | [] -> None
         | n1 :: _ ->
           let Node (t0, cs0) = n1 in
           (match t0 with
            | Str op -> (match cs0 with
                         | [] -> Some op
                         | _ :: _ -> None)
            | _ -> None))
      | _ -> None)
   | _ -> None)

(** val tpl_instrumentable : node -> bool **)

let tpl_instrumentable = function
| Node (t, cs) ->
  (match t with
   | K (k, _, _) ->
     (match k with
      | KTpl ->
        (match cs with
         | [] -> false
         | n1 :: l ->
           let Node (t0, es) = n1 in
           (match t0 with
            | Lst ->
              (match l with
               | [] -> false
               | _ :: l0 ->
                 (match l0 with
                  | [] ->
                    (match es with
                     | [] -> false
                     | _ :: _ -> forallb (fun e -> negb (is_lit e)) es)
                  | _ :: _ -> false))
            | _ -> false))
      | _ -> false)
   | _ -> false)

(** val callee_is_expr : node -> bool **)

let callee_is_expr call =
  match call_parts call with
  | Some p ->
    let (p0, _) = p in
    let (p1, _) = p0 in
    let (_, callee) = p1 in
    negb ((||) (is_kind KSuper callee) (is_kind KImport callee))
  | None -> false

type opclass =
| OBlock
| OIdent
| OBin
| OAssign
| OTpl
| OCall
| OOptChain
| OUnary
| OArrow
| OLeaf
| OOther

(** val classify : node -> opclass **)

let classify n0 = match n0 with
| Node (t, _) ->
  (match t with
   | K (k, _, _) ->
     (match k with
      | KBlock -> OBlock
      | KBin -> OBin
      | KAssign -> OAssign
      | KTpl -> OTpl
      | KCall -> OCall
      | KOptChain -> OOptChain
      | KUnary -> OUnary
      | KArrow -> OArrow
      | KIdent -> OIdent
      | _ -> if leaf n0 then OLeaf else OOther)
   | _ -> if leaf n0 then OLeaf else OOther)

(** val default_visit_with :
    (node -> ostate -> (node * ostate) option) -> node -> ostate ->
    (node * ostate) option **)

let default_visit_with rec0 n0 s =
  let Node (t, cs) = n0 in
  (match t with
   | K (k, lo, hi) ->
     (match k with
      | KTaggedTpl ->
        (match cs with
         | [] ->
           (match map_st rec0 cs s with
            | Some p -> let (cs', s') = p in Some ((Node (t, cs')), s')
            | None -> None)
         | cx :: l ->
           (match l with
            | [] ->
              (match map_st rec0 cs s with
               | Some p -> let (cs', s') = p in Some ((Node (t, cs')), s')
               | None -> None)
            | tg :: l0 ->
              (match l0 with
               | [] ->
                 (match map_st rec0 cs s with
                  | Some p -> let (cs', s') = p in Some ((Node (t, cs')), s')
                  | None -> None)
               | tp :: l1 ->
                 (match l1 with
                  | [] ->
                    (match map_st rec0 cs s with
                     | Some p ->
                       let (cs', s') = p in Some ((Node (t, cs')), s')
                     | None -> None)
                  | n1 :: l2 ->
                    let Node (tplt, tplcs) = n1 in
                    (match l2 with
                     | [] ->
                       (match map_st rec0 (cx :: (tg :: (tp :: []))) s with
                        | Some p ->
                          let (l3, s1) = p in
                          (match l3 with
                           | [] -> None
                           | cx' :: l4 ->
                             (match l4 with
                              | [] -> None
                              | tg' :: l5 ->
                                (match l5 with
                                 | [] -> None
                                 | tp' :: l6 ->
                                   (match l6 with
                                    | [] ->
                                      (match map_st rec0 tplcs s1 with
                                       | Some p0 ->
                                         let (tplcs', s2) = p0 in
                                         Some ((Node ((K (KTaggedTpl, lo,
                                         hi)), (cx' :: (tg' :: (tp' :: ((Node
                                         (tplt, tplcs')) :: [])))))), s2)
                                       | None -> None)
                                    | _ :: _ -> None))))
                        | None -> None)
                     | _ :: _ ->
                       (match map_st rec0 cs s with
                        | Some p ->
                          let (cs', s') = p in Some ((Node (t, cs')), s')
                        | None -> None))))))
      | KOptChain ->
        (match cs with
         | [] ->
           (match map_st rec0 cs s with
            | Some p -> let (cs', s') = p in Some ((Node (t, cs')), s')
            | None -> None)
         | opt :: l ->
           (match l with
            | [] ->
              (match map_st rec0 cs s with
               | Some p -> let (cs', s') = p in Some ((Node (t, cs')), s')
               | None -> None)
            | n1 :: l0 ->
              let Node (bt, bcs) = n1 in
              (match l0 with
               | [] ->
                 (match map_st rec0 bcs s with
                  | Some p ->
                    let (bcs', s1) = p in
                    Some ((Node ((K (KOptChain, lo, hi)), (opt :: ((Node (bt,
                    bcs')) :: [])))), s1)
                  | None -> None)
               | _ :: _ ->
                 (match map_st rec0 cs s with
                  | Some p -> let (cs', s') = p in Some ((Node (t, cs')), s')
                  | None -> None))))
      | _ ->
        (match map_st rec0 cs s with
         | Some p -> let (cs', s') = p in Some ((Node (t, cs')), s')
         | None -> None))
   | _ ->
     (match map_st rec0 cs s with
      | Some p -> let (cs', s') = p in Some ((Node (t, cs')), s')
      | None -> None))

(** val struct_level_with :
    config -> (node -> ostate -> (node * ostate) option) -> node -> ostate ->
    (node * ostate) option **)

let struct_level_with c rec0 n0 s =
  match classify n0 with
  | OBlock -> Some (n0, s)
  | OIdent -> Some (n0, (o_with_p (register_variable c n0 s.o_p) s))
  | OLeaf -> Some (n0, s)
  | _ -> default_visit_with rec0 n0 s

(** val bin_step : config -> node -> ostate -> node * ostate **)

let bin_step c n1 s1 =
  if is_op bin_op ('+'::[]) n1
  then let (r, p2) = binary_transform c n1 s1.o_p in
       let s2 = o_with_p p2 s1 in
       (match r with
        | Some e' -> (e', (o_update c Modified (Some gen_ADD_TAG) s2))
        | None -> (n1, (o_update c NotModified (Some gen_ADD_TAG) s2)))
  else (n1, s1)

(** val assign_step : config -> node -> ostate -> node * ostate **)

let assign_step c n1 s1 =
  if is_op assign_op ('+'::('='::[])) n1
  then let (r, p2) = assign_transform c n1 s1.o_p in
       let s2 = o_with_p p2 s1 in
       (match r with
        | Some e' -> (e', (o_update c Modified (Some gen_ADD_ASSIGN_TAG) s2))
        | None -> (n1, (o_update c NotModified (Some gen_ADD_ASSIGN_TAG) s2)))
  else (n1, s1)

(** val tpl_step : config -> node -> ostate -> node * ostate **)

let tpl_step c n1 s1 =
  let (r, p2) = template_transform c n1 s1.o_p in
  let s2 = o_with_p p2 s1 in
  (match r with
   | Some e' -> (e', (o_update c Modified (Some gen_TPL_TAG) s2))
   | None -> (n1, (o_update c NotModified (Some gen_TPL_TAG) s2)))

(** val call_step : config -> node -> ostate -> node * ostate **)

let call_step c n1 s1 =
  if callee_is_expr n1
  then let (r, p2) = call_transform c n1 s1.o_p in
       let s2 = o_with_p p2 s1 in
       (match r with
        | Some p ->
          let (e', tag0) = p in (e', (o_update c Modified (Some tag0) s2))
        | None -> (n1, s2))
  else (n1, s1)

(** val finish : bool -> (node * ostate) -> (node * ostate) option **)

let finish root r =
  Some ((fst r), (o_leave root (snd r)))

(** val op_visit :
    config -> nat -> bool -> node -> ostate -> (node * ostate) option **)

let rec op_visit c fuel root n0 s =
  match fuel with
  | O -> None
  | S f ->
    (match classify n0 with
     | OIdent -> Some (n0, (o_with_p (register_variable c n0 s.o_p) s))
     | OBin ->
       if plus_enabled c
       then (match default_visit_with (op_visit c f false) n0 s with
             | Some p -> let (n1, s1) = p in finish root (bin_step c n1 s1)
             | None -> None)
       else default_visit_with (op_visit c f root) n0 s
     | OAssign ->
       if plus_enabled c
       then (match default_visit_with (op_visit c f false) n0 s with
             | Some p -> let (n1, s1) = p in finish root (assign_step c n1 s1)
             | None -> None)
       else default_visit_with (op_visit c f root) n0 s
     | OTpl ->
       if tpl_enabled c
       then if tpl_instrumentable n0
            then (match default_visit_with (op_visit c f false) n0 s with
                  | Some p ->
                    let (n1, s1) = p in finish root (tpl_step c n1 s1)
                  | None -> None)
            else Some (n0, s)
       else default_visit_with (op_visit c f root) n0 s
     | OCall ->
       (match default_visit_with (op_visit c f false) n0 s with
        | Some p -> let (n1, s1) = p in finish root (call_step c n1 s1)
        | None -> None)
     | OOptChain ->
       (match optchain_transform c f n0 s.o_p with
        | Some p ->
          let (p0, p1) = p in
          let (n1, _) = p0 in
          (match struct_level_with c (op_visit c f false) n1 (o_with_p p1 s) with
           | Some p2 -> let (n2, s3) = p2 in Some (n2, (o_leave root s3))
           | None -> None)
        | None -> None)
     | OUnary ->
       if is_op unary_op ('d'::('e'::('l'::('e'::('t'::('e'::[])))))) n0
       then Some (n0, s)
       else default_visit_with (op_visit c f root) n0 s
     | OArrow -> Some ((arrow_transform n0), s)
     | OOther -> default_visit_with (op_visit c f root) n0 s
     | _ -> Some (n0, s))

(** val can_precede_directive : node -> bool **)

let can_precede_directive = function
| Node (t, cs) ->
  (match t with
   | K (k, _, _) ->
     (match k with
      | KExprStmt ->
        (match cs with
         | [] -> false
         | n0 :: l ->
           let Node (t0, _) = n0 in
           (match t0 with
            | K (k0, _, _) ->
              (match k0 with
               | KStr -> (match l with
                          | [] -> true
                          | _ :: _ -> false)
               | _ -> false)
            | _ -> false))
      | _ -> false)
   | _ -> false)

(** val insertion_index : node list -> nat **)

let rec insertion_index = function
| [] -> O
| s0 :: rest ->
  if can_precede_directive s0 then S (insertion_index rest) else O

(** val insert_at : nat -> 'a1 list -> 'a1 list -> 'a1 list **)

let insert_at i xs l =
  app (firstn i l) (app xs (skipn i l))

(** val insert_let : char list list -> sp -> node list -> node list **)

let insert_let idents span stmts =
  match idents with
  | [] -> stmts
  | _ :: _ ->
    let decls =
      map (fun name -> mk_var_declarator span (mk_binding_ident dUMMY name))
        idents
    in
    insert_at (insertion_index stmts) ((mk_let span decls) :: []) stmts

(** val t_cancel : char list -> tstate -> tstate **)

let t_cancel reason t =
  { t_status = Cancelled; t_msg = (Some reason); t_count = t.t_count;
    t_tags = t.t_tags }

(** val block_visit :
    config -> nat -> node -> tstate -> (node * tstate) option **)

let rec block_visit c fuel n0 t =
  match fuel with
  | O -> None
  | S f ->
    let children = fun n1 t0 ->
      let Node (tg, cs) = n1 in
      (match map_st (block_visit c f) cs t0 with
       | Some p -> let (cs', t') = p in Some ((Node (tg, cs')), t')
       | None -> None)
    in
    let Node (t0, cs) = n0 in
    (match t0 with
     | K (k, lo, hi) ->
       (match k with
        | KBlock ->
          (match cs with
           | [] -> if leaf n0 then Some (n0, t) else children n0 t
           | cx :: l ->
             (match l with
              | [] -> if leaf n0 then Some (n0, t) else children n0 t
              | n1 :: l0 ->
                let Node (t1, stmts) = n1 in
                (match t1 with
                 | Lst ->
                   (match l0 with
                    | [] ->
                      if status_eqb t.t_status Cancelled
                      then Some (n0, t)
                      else (match map_st (op_visit c f true) (cx :: ((Node
                                    (Lst, stmts)) :: [])) { o_p = p_init;
                                    o_t = t } with
                            | Some p ->
                              let (l1, s) = p in
                              (match l1 with
                               | [] -> None
                               | cx' :: l2 ->
                                 (match l2 with
                                  | [] -> None
                                  | n2 :: l3 ->
                                    let Node (t2, stmts') = n2 in
                                    (match t2 with
                                     | Lst ->
                                       (match l3 with
                                        | [] ->
                                          if s.o_p.p_dup
                                          then Some ((Node ((K (KBlock, lo,
                                                 hi)), (cx' :: ((Node (Lst,
                                                 stmts')) :: [])))),
                                                 (t_cancel gen_cancel_reason
                                                   s.o_t))
                                          else let stmts'' =
                                                 insert_let s.o_p.p_idents
                                                   (lo, hi) stmts'
                                               in
                                               children (Node ((K (KBlock,
                                                 lo, hi)), (cx' :: ((Node
                                                 (Lst, stmts'')) :: []))))
                                                 s.o_t
                                        | _ :: _ -> None)
                                     | _ -> None)))
                            | None -> None)
                    | _ :: _ ->
                      if leaf n0 then Some (n0, t) else children n0 t)
                 | _ -> if leaf n0 then Some (n0, t) else children n0 t)))
        | KArrow ->
          children
            (if status_eqb t.t_status Cancelled
             then n0
             else arrow_transform n0) t
        | KIdent ->
          (match ident_sym n0 with
           | Some sym ->
             if (&&)
                  ((&&) (negb (is_dummy (lo, hi)))
                    (prefix (var_prefix c) sym))
                  (negb (status_eqb t.t_status Cancelled))
             then Some (n0, (t_cancel gen_cancel_reason t))
             else Some (n0, t)
           | None -> Some (n0, t))
        | _ -> if leaf n0 then Some (n0, t) else children n0 t)
     | _ -> if leaf n0 then Some (n0, t) else children n0 t)

(** val insert_prologue : config -> node list -> node list **)

let insert_prologue c body =
  insert_at (insertion_index body) c.c_prefix_stmts body

(** val program_visit : config -> nat -> node -> (node * tstate) option **)

let program_visit c fuel = function
| Node (t, cs) ->
  (match t with
   | K (k, lo, hi) ->
     (match map_st (block_visit c fuel) cs t_init with
      | Some p ->
        let (cs', t0) = p in
        if status_eqb t0.t_status Modified
        then (match k with
              | KScript ->
                (match cs' with
                 | [] -> Some ((Node ((K (k, lo, hi)), cs')), t0)
                 | n0 :: l ->
                   let Node (t1, body) = n0 in
                   (match t1 with
                    | Lst ->
                      (match l with
                       | [] -> Some ((Node ((K (k, lo, hi)), cs')), t0)
                       | interp :: l0 ->
                         (match l0 with
                          | [] ->
                            Some ((Node ((K (k, lo, hi)), ((Node (Lst,
                              (insert_prologue c body))) :: (interp :: [])))),
                              t0)
                          | _ :: _ -> Some ((Node ((K (k, lo, hi)), cs')), t0)))
                    | _ -> Some ((Node ((K (k, lo, hi)), cs')), t0)))
              | KModule ->
                (match cs' with
                 | [] -> Some ((Node ((K (k, lo, hi)), cs')), t0)
                 | n0 :: l ->
                   let Node (t1, body) = n0 in
                   (match t1 with
                    | Lst ->
                      (match l with
                       | [] -> Some ((Node ((K (k, lo, hi)), cs')), t0)
                       | interp :: l0 ->
                         (match l0 with
                          | [] ->
                            Some ((Node ((K (k, lo, hi)), ((Node (Lst,
                              (insert_prologue c body))) :: (interp :: [])))),
                              t0)
                          | _ :: _ -> Some ((Node ((K (k, lo, hi)), cs')), t0)))
                    | _ -> Some ((Node ((K (k, lo, hi)), cs')), t0)))
              | _ -> Some ((Node ((K (k, lo, hi)), cs')), t0))
        else Some ((Node ((K (k, lo, hi)), cs')), t0)
      | None -> None)
   | _ -> None)

(** val default_fuel : node -> nat **)

let default_fuel prog =
  add (mul (S (S O)) (node_depth prog)) (S (S (S (S (S (S (S (S (S (S (S (S
    (S (S (S (S (S (S (S (S (S (S (S (S (S (S (S (S (S (S (S (S (S (S (S (S
    (S (S (S (S (S (S (S (S (S (S (S (S (S (S (S (S (S (S (S (S (S (S (S (S
    (S (S (S (S
    O))))))))))))))))))))))))))))))))))))))))))))))))))))))))))))))))

type outcome =
| OutOk of node * tstate
| OutErr of char list
| OutFuel

(** val subst_format : char list -> char list list -> char list **)

let rec subst_format fmt args =
  match fmt with
  | [] -> []
  | ch::rest ->
    (* If this appears, you're using Ascii internals. Please don't *)
 (fun f c ->
  let n = Char.code c in
  let h i = (n land (1 lsl i)) <> 0 in
  f (h 0) (h 1) (h 2) (h 3) (h 4) (h 5) (h 6) (h 7))
      (fun b b0 b1 b2 b3 b4 b5 b6 ->
      if b
      then if b0
           then if b1
                then ch::(subst_format rest args)
                else if b2
                     then if b3
                          then if b4
                               then if b5
                                    then if b6
                                         then ch::(subst_format rest args)
                                         else (match rest with
                                               | [] ->
                                                 ch::(subst_format rest args)
                                               | a::rest0 ->
                                                 (* If this appears, you're using Ascii internals. Please don't *)
 (fun f c ->
  let n = Char.code c in
  let h i = (n land (1 lsl i)) <> 0 in
  f (h 0) (h 1) (h 2) (h 3) (h 4) (h 5) (h 6) (h 7))
                                                   (fun b7 b8 b9 b10 b11 b12 b13 b14 ->
                                                   if b7
                                                   then if b8
                                                        then ch::(subst_format
                                                                   rest args)
                                                        else if b9
                                                             then if b10
                                                                  then 
                                                                    if b11
                                                                    then 
                                                                    if b12
                                                                    then 
                                                                    if b13
                                                                    then 
                                                                    if b14
                                                                    then 
                                                                    ch::
                                                                    (subst_format
                                                                    rest args)
                                                                    else 
                                                                    (match args with
                                                                    | [] ->
                                                                    subst_format
                                                                    rest0 []
                                                                    | a0 :: args' ->
                                                                    append a0
                                                                    (subst_format
                                                                    rest0
                                                                    args'))
                                                                    else 
                                                                    ch::
                                                                    (subst_format
                                                                    rest args)
                                                                    else 
                                                                    ch::
                                                                    (subst_format
                                                                    rest args)
                                                                    else 
                                                                    ch::
                                                                    (subst_format
                                                                    rest args)
                                                                  else 
                                                                    ch::
                                                                    (subst_format
                                                                    rest args)
                                                             else ch::
                                                                    (subst_format
                                                                    rest args)
                                                   else ch::(subst_format
                                                              rest args))
                                                   a)
                                    else ch::(subst_format rest args)
                               else ch::(subst_format rest args)
                          else ch::(subst_format rest args)
                     else ch::(subst_format rest args)
           else ch::(subst_format rest args)
      else ch::(subst_format rest args))
      ch

(** val rewrite : config -> char list -> node -> outcome **)

let rewrite c file prog =
  match program_visit c (default_fuel prog) prog with
  | Some p ->
    let (ast, t) = p in
    (match t.t_status with
     | Cancelled ->
       OutErr
         (subst_format gen_cancel_format
           (file :: ((match t.t_msg with
                      | Some m -> m
                      | None -> gen_cancel_unknown) :: [])))
     | _ -> OutOk (ast, t))
  | None -> OutFuel

(** val hook_callee_name : node -> char list option **)

let hook_callee_name = function
| Node (t, cs) ->
  (match t with
   | K (k, _, _) ->
     (match k with
      | KMember ->
        (match cs with
         | [] -> None
         | n0 :: l ->
           let Node (t0, cs0) = n0 in
           (match t0 with
            | K (k0, _, _) ->
              (match k0 with
               | KIdent ->
                 (match cs0 with
                  | [] -> None
                  | _ :: l0 ->
                    (match l0 with
                     | [] -> None
                     | n1 :: _ ->
                       let Node (t1, cs1) = n1 in
                       (match t1 with
                        | Str ns ->
                          (match cs1 with
                           | [] ->
                             (match l with
                              | [] -> None
                              | n2 :: l2 ->
                                let Node (t2, cs2) = n2 in
                                (match t2 with
                                 | K (k1, _, _) ->
                                   (match k1 with
                                    | KIdentName ->
                                      (match cs2 with
                                       | [] -> None
                                       | n3 :: l3 ->
                                         let Node (t3, cs3) = n3 in
                                         (match t3 with
                                          | Str name ->
                                            (match cs3 with
                                             | [] ->
                                               (match l3 with
                                                | [] ->
                                                  (match l2 with
                                                   | [] ->
                                                     if eqb1 ns
                                                          gen_DD_GLOBAL_NAMESPACE
                                                     then Some name
                                                     else None
                                                   | _ :: _ -> None)
                                                | _ :: _ -> None)
                                             | _ :: _ -> None)
                                          | _ -> None))
                                    | _ -> None)
                                 | _ -> None))
                           | _ :: _ -> None)
                        | _ -> None)))
               | _ -> None)
            | _ -> None))
      | _ -> None)
   | _ -> None)

(** val hook_call : node -> (char list * node list) option **)

let hook_call = function
| Node (t, cs) ->
  (match t with
   | K (k, _, _) ->
     (match k with
      | KCall ->
        (match cs with
         | [] -> None
         | _ :: l ->
           (match l with
            | [] -> None
            | callee :: l0 ->
              (match l0 with
               | [] -> None
               | n1 :: l1 ->
                 let Node (t0, args) = n1 in
                 (match t0 with
                  | Lst ->
                    (match l1 with
                     | [] -> None
                     | _ :: l2 ->
                       (match l2 with
                        | [] ->
                          (match hook_callee_name callee with
                           | Some name -> Some (name, args)
                           | None -> None)
                        | _ :: _ -> None))
                  | _ -> None))))
      | _ -> None)
   | _ -> None)

(** val is_hook : node -> bool **)

let is_hook n0 =
  match hook_call n0 with
  | Some _ -> true
  | None -> false

(** val hook_count : node -> nat **)

let rec hook_count = function
| Node (t, cs) ->
  if (||) (leaf (Node (t, cs))) (is_ident (Node (t, cs)))
  then O
  else add (if is_hook (Node (t, cs)) then S O else O)
         (let rec go = function
          | [] -> O
          | c :: l' -> add (hook_count c) (go l')
          in go cs)

(** val hook_names : node -> char list list **)

let rec hook_names = function
| Node (t, cs) ->
  app
    (match hook_call (Node (t, cs)) with
     | Some p -> let (name, _) = p in name :: []
     | None -> [])
    (let rec go = function
     | [] -> []
     | c :: l' -> app (hook_names c) (go l')
     in go cs)

(** val assign_pair : node -> (char list * node) option **)

let assign_pair = function
| Node (t, cs) ->
  (match t with
   | K (k, _, _) ->
     (match k with
      | KAssign ->
        (match cs with
         | [] -> None
         | n1 :: l ->
           let Node (t0, cs0) = n1 in
           (match t0 with
            | Str s ->
              (match s with
               | [] -> None
               | a::s0 ->
                 (* If this appears, you're using Ascii internals. Please don't *)
 (fun f c ->
  let n = Char.code c in
  let h i = (n land (1 lsl i)) <> 0 in
  f (h 0) (h 1) (h 2) (h 3) (h 4) (h 5) (h 6) (h 7))
                   (fun b b0 b1 b2 b3 b4 b5 b6 ->
                   if b
                   then if b0
                        then None
                        else if b1
                             then if b2
                                  then if b3
                                       then if b4
                                            then if b5
                                                 then None
                                                 else if b6
                                                      then None
                                                      else (match s0 with
                                                            | [] ->
                                                              (match cs0 with
                                                               | [] ->
                                                                 (match l with
                                                                  | [] -> None
                                                                  | lhs :: l0 ->
                                                                    (match l0 with
                                                                    | [] ->
                                                                    None
                                                                    | rhs :: l1 ->
                                                                    (match l1 with
                                                                    | [] ->
                                                                    (match 
                                                                    ident_sym
                                                                    lhs with
                                                                    | Some s1 ->
                                                                    Some (s1,
                                                                    rhs)
                                                                    | None ->
                                                                    None)
                                                                    | _ :: _ ->
                                                                    None)))
                                                               | _ :: _ ->
                                                                 None)
                                                            | _::_ -> None)
                                            else None
                                       else None
                                  else None
                             else None
                   else None)
                   a)
            | _ -> None))
      | _ -> None)
   | _ -> None)

(** val lookup_assign : char list -> node list -> node option **)

let rec lookup_assign name = function
| [] -> None
| x :: l' ->
  (match assign_pair x with
   | Some p ->
     let (s, rhs) = p in
     if eqb1 s name then Some rhs else lookup_assign name l'
   | None -> lookup_assign name l')

(** val tag_of_operation : node -> node list -> bool -> char list **)

let tag_of_operation op env same_span_assign =
  let Node (t, cs) = op in
  (match t with
   | K (k, _, _) ->
     (match k with
      | KBin -> if same_span_assign then gen_ADD_ASSIGN_TAG else gen_ADD_TAG
      | KTpl -> gen_TPL_TAG
      | KCall ->
        (match cs with
         | [] -> '?'::[]
         | _ :: l ->
           (match l with
            | [] -> '?'::[]
            | callee :: l0 ->
              (match l0 with
               | [] -> '?'::[]
               | _ :: l1 ->
                 (match l1 with
                  | [] -> '?'::[]
                  | _ :: l2 ->
                    (match l2 with
                     | [] ->
                       let Node (t0, cs0) = callee in
                       (match t0 with
                        | K (k0, _, _) ->
                          (match k0 with
                           | KMember ->
                             (match cs0 with
                              | [] ->
                                (match ident_sym callee with
                                 | Some f -> f
                                 | None -> '?'::[])
                              | obj :: l3 ->
                                (match l3 with
                                 | [] ->
                                   (match ident_sym callee with
                                    | Some f -> f
                                    | None -> '?'::[])
                                 | _ :: l4 ->
                                   (match l4 with
                                    | [] ->
                                      (match ident_sym obj with
                                       | Some tmp ->
                                         (match lookup_assign tmp env with
                                          | Some n0 ->
                                            let Node (t1, cs1) = n0 in
                                            (match t1 with
                                             | K (k1, _, _) ->
                                               (match k1 with
                                                | KMember ->
                                                  (match cs1 with
                                                   | [] -> '?'::[]
                                                   | _ :: l5 ->
                                                     (match l5 with
                                                      | [] -> '?'::[]
                                                      | prop :: l6 ->
                                                        (match l6 with
                                                         | [] ->
                                                           (match ident_name_sym
                                                                    prop with
                                                            | Some m -> m
                                                            | None -> '?'::[])
                                                         | _ :: _ -> '?'::[])))
                                                | _ -> '?'::[])
                                             | _ -> '?'::[])
                                          | None -> '?'::[])
                                       | None -> '?'::[])
                                    | _ :: _ ->
                                      (match ident_sym callee with
                                       | Some f -> f
                                       | None -> '?'::[]))))
                           | _ ->
                             (match ident_sym callee with
                              | Some f -> f
                              | None -> '?'::[]))
                        | _ ->
                          (match ident_sym callee with
                           | Some f -> f
                           | None -> '?'::[]))
                     | _ :: _ -> '?'::[])))))
      | _ -> '?'::[])
   | _ -> '?'::[])

(** val first_arg : node list -> node option **)

let first_arg = function
| [] -> None
| a :: _ -> arg_expr a

(** val hook_tags_aux :
    char list -> node list -> sp option -> node -> char list list **)

let rec hook_tags_aux vp env asg = function
| Node (t, cs) ->
  let here0 =
    match hook_call (Node (t, cs)) with
    | Some p ->
      let (_, args) = p in
      (match first_arg args with
       | Some op ->
         let same =
           match asg with
           | Some s ->
             (&&) (N.eqb (fst s) (fst (span_of (Node (t, cs)))))
               (N.eqb (snd s) (snd (span_of (Node (t, cs)))))
           | None -> false
         in
         (tag_of_operation op env same) :: []
       | None -> ('?'::[]) :: [])
    | None -> []
  in
  let rest =
    match t with
    | K (k, lo, hi) ->
      (match k with
       | KScript ->
         let rec go = function
         | [] -> []
         | c :: l' -> app (hook_tags_aux vp env None c) (go l')
         in go cs
       | KAssign ->
         (match cs with
          | [] ->
            let rec go = function
            | [] -> []
            | c :: l' -> app (hook_tags_aux vp env None c) (go l')
            in go cs
          | _ :: l ->
            (match l with
             | [] ->
               let rec go = function
               | [] -> []
               | c :: l' -> app (hook_tags_aux vp env None c) (go l')
               in go cs
             | lhs :: l0 ->
               (match l0 with
                | [] ->
                  let rec go = function
                  | [] -> []
                  | c :: l' -> app (hook_tags_aux vp env None c) (go l')
                  in go cs
                | rhs :: l1 ->
                  (match l1 with
                   | [] ->
                     let user_target =
                       match ident_sym lhs with
                       | Some s -> negb (prefix vp s)
                       | None -> true
                     in
                     app (hook_tags_aux vp env None lhs)
                       (hook_tags_aux vp env
                         (if user_target then Some (lo, hi) else None) rhs)
                   | _ :: _ ->
                     let rec go = function
                     | [] -> []
                     | c :: l' -> app (hook_tags_aux vp env None c) (go l')
                     in go cs))))
       | KParen ->
         (match cs with
          | [] ->
            let rec go = function
            | [] -> []
            | c :: l' -> app (hook_tags_aux vp env None c) (go l')
            in go cs
          | e :: l ->
            (match l with
             | [] -> hook_tags_aux vp env asg e
             | _ :: _ ->
               let rec go = function
               | [] -> []
               | c :: l' -> app (hook_tags_aux vp env None c) (go l')
               in go cs))
       | KSeq ->
         (match cs with
          | [] ->
            let rec go = function
            | [] -> []
            | c :: l' -> app (hook_tags_aux vp env None c) (go l')
            in go cs
          | n1 :: l ->
            let Node (t0, es) = n1 in
            (match t0 with
             | Lst ->
               (match l with
                | [] ->
                  let rec go = function
                  | [] -> []
                  | c :: l' ->
                    (match l' with
                     | [] -> hook_tags_aux vp es asg c
                     | _ :: _ -> app (hook_tags_aux vp es None c) (go l'))
                  in go es
                | _ :: _ ->
                  let rec go = function
                  | [] -> []
                  | c :: l' -> app (hook_tags_aux vp env None c) (go l')
                  in go cs)
             | _ ->
               let rec go = function
               | [] -> []
               | c :: l' -> app (hook_tags_aux vp env None c) (go l')
               in go cs))
       | _ ->
         let rec go = function
         | [] -> []
         | c :: l' -> app (hook_tags_aux vp env None c) (go l')
         in go cs)
    | _ ->
      let rec go = function
      | [] -> []
      | c :: l' -> app (hook_tags_aux vp env None c) (go l')
      in go cs
  in
  app here0 rest

(** val hook_tags : char list -> node -> char list list **)

let hook_tags vp n0 =
  hook_tags_aux vp [] None n0

(** val hook_sites : node -> (char list * (n * n)) list **)

let rec hook_sites = function
| Node (t, cs) ->
  app
    (match hook_call (Node (t, cs)) with
     | Some p -> let (name, _) = p in (name, (span_of (Node (t, cs)))) :: []
     | None -> [])
    (let rec go = function
     | [] -> []
     | c :: l' -> app (hook_sites c) (go l')
     in go cs)

(** val is_ns_ident : node -> bool **)

let is_ns_ident = function
| Node (t, cs) ->
  (match t with
   | K (k, _, _) ->
     (match k with
      | KIdent ->
        (match cs with
         | [] -> false
         | _ :: l ->
           (match l with
            | [] -> false
            | n1 :: _ ->
              let Node (t0, cs0) = n1 in
              (match t0 with
               | Str s ->
                 (match cs0 with
                  | [] -> eqb1 s gen_DD_GLOBAL_NAMESPACE
                  | _ :: _ -> false)
               | _ -> false)))
      | _ -> false)
   | _ -> false)

(** val stop_kind : node -> bool **)

let stop_kind n0 =
  (||) (is_kind KBlock n0) (is_kind KArrow n0)

(** val meas : (node -> nat option) -> nat -> node -> nat **)

let rec meas stop kappa = function
| Node (t, cs) ->
  if is_ident (Node (t, cs))
  then if is_ns_ident (Node (t, cs)) then kappa else O
  else if leaf (Node (t, cs))
       then O
       else (match if stop_kind (Node (t, cs))
                   then stop (Node (t, cs))
                   else None with
             | Some w -> w
             | None ->
               let rec go = function
               | [] -> O
               | c :: l' -> add (meas stop kappa c) (go l')
               in go cs)

(** val no_stop : node -> nat option **)

let no_stop _ =
  None

(** val ns_count : node -> nat **)

let ns_count =
  meas no_stop (S O)

(** val any_node : (node -> bool) -> node -> bool **)

let rec any_node p n0 =
  (||) (p n0)
    (let Node (_, cs) = n0 in
     let rec go = function
     | [] -> false
     | c :: l' -> (||) (any_node p c) (go l')
     in go cs)

(** val static_path : node -> bool **)

let rec static_path = function
| Node (t, cs) ->
  (match t with
   | K (k, _, _) ->
     (match k with
      | KMember ->
        (match cs with
         | [] -> false
         | obj :: l ->
           (match l with
            | [] -> false
            | n0 :: l0 ->
              let Node (t0, _) = n0 in
              (match t0 with
               | K (k0, _, _) ->
                 (match k0 with
                  | KIdentName ->
                    (match l0 with
                     | [] -> static_path obj
                     | _ :: _ -> false)
                  | _ -> false)
               | _ -> false)))
      | KIdent -> true
      | KThis -> true
      | _ -> false)
   | _ -> false)

(** val call_apply_nonstatic : char list list -> node -> bool **)

let call_apply_nonstatic names = function
| Node (t, cs) ->
  (match t with
   | K (k, _, _) ->
     (match k with
      | KCall ->
        (match cs with
         | [] -> false
         | _ :: l ->
           (match l with
            | [] -> false
            | n1 :: l0 ->
              let Node (t0, cs0) = n1 in
              (match t0 with
               | K (k0, _, _) ->
                 (match k0 with
                  | KMember ->
                    (match cs0 with
                     | [] -> false
                     | n2 :: l1 ->
                       let Node (t1, cs1) = n2 in
                       (match t1 with
                        | K (k1, _, _) ->
                          (match k1 with
                           | KMember ->
                             (match cs1 with
                              | [] -> false
                              | p :: l2 ->
                                (match l2 with
                                 | [] -> false
                                 | mprop :: l3 ->
                                   (match l3 with
                                    | [] ->
                                      (match l1 with
                                       | [] -> false
                                       | cprop :: l4 ->
                                         (match l4 with
                                          | [] ->
                                            (match l0 with
                                             | [] -> false
                                             | n3 :: l5 ->
                                               let Node (t2, cs2) = n3 in
                                               (match t2 with
                                                | Lst ->
                                                  (match cs2 with
                                                   | [] -> false
                                                   | _ :: _ ->
                                                     (match l5 with
                                                      | [] -> false
                                                      | _ :: l7 ->
                                                        (match l7 with
                                                         | [] ->
                                                           (match ident_name_sym
                                                                    cprop with
                                                            | Some ca ->
                                                              (match 
                                                               ident_name_sym
                                                                 mprop with
                                                               | Some m ->
                                                                 (&&)
                                                                   ((&&)
                                                                    ((||)
                                                                    (eqb1 ca
                                                                    gen_CALL)
                                                                    (eqb1 ca
                                                                    gen_APPLY))
                                                                    (existsb
                                                                    (eqb1 m)
                                                                    names))
                                                                   (negb
                                                                    (static_path
                                                                    p))
                                                               | None -> false)
                                                            | None -> false)
                                                         | _ :: _ -> false)))
                                                | _ -> false))
                                          | _ :: _ -> false))
                                    | _ :: _ -> false)))
                           | _ -> false)
                        | _ -> false))
                  | _ -> false)
               | _ -> false)))
      | _ -> false)
   | _ -> false)

(** val k_call_apply_nonstatic : char list list -> node -> bool **)

let k_call_apply_nonstatic names prog =
  any_node (call_apply_nonstatic names) prog

(** val known_classes : char list list -> node -> char list list **)

let known_classes names prog =
  if k_call_apply_nonstatic names prog
  then ('c'::('a'::('l'::('l'::('-'::('a'::('p'::('p'::('l'::('y'::('-'::('n'::('o'::('n'::('s'::('t'::('a'::('t'::('i'::('c'::('-'::('p'::('a'::('t'::('h'::[]))))))))))))))))))))))))) :: []
  else []

(** val is_directive : node -> bool **)

let is_directive = function
| Node (t, cs) ->
  (match t with
   | K (k, _, _) ->
     (match k with
      | KExprStmt ->
        (match cs with
         | [] -> false
         | n0 :: l ->
           let Node (t0, _) = n0 in
           (match t0 with
            | K (k0, _, _) ->
              (match k0 with
               | KStr -> (match l with
                          | [] -> true
                          | _ :: _ -> false)
               | _ -> false)
            | _ -> false))
      | _ -> false)
   | _ -> false)

(** val directives_of : node list -> node list **)

let rec directives_of = function
| [] -> []
| s :: rest -> if is_directive s then s :: (directives_of rest) else []

(** val after_directives : node list -> node list **)

let rec after_directives stmts = match stmts with
| [] -> []
| s :: rest -> if is_directive s then after_directives rest else stmts

(** val list_eqb : node list -> node list -> bool **)

let rec list_eqb a b =
  match a with
  | [] -> (match b with
           | [] -> true
           | _ :: _ -> false)
  | x :: a' ->
    (match b with
     | [] -> false
     | y :: b' -> (&&) (node_eqb x y) (list_eqb a' b'))

(** val is_injected_let : char list -> node -> bool **)

let is_injected_let vp = function
| Node (t, cs) ->
  (match t with
   | K (k, _, _) ->
     (match k with
      | KVarDecl ->
        (match cs with
         | [] -> false
         | _ :: l ->
           (match l with
            | [] -> false
            | n0 :: l0 ->
              let Node (t0, cs0) = n0 in
              (match t0 with
               | Str s ->
                 (match s with
                  | [] -> false
                  | a::s0 ->
                    (* If this appears, you're using Ascii internals. Please don't *)
 (fun f c ->
  let n = Char.code c in
  let h i = (n land (1 lsl i)) <> 0 in
  f (h 0) (h 1) (h 2) (h 3) (h 4) (h 5) (h 6) (h 7))
                      (fun b b0 b1 b2 b3 b4 b5 b6 ->
                      if b
                      then false
                      else if b0
                           then false
                           else if b1
                                then if b2
                                     then if b3
                                          then false
                                          else if b4
                                               then if b5
                                                    then if b6
                                                         then false
                                                         else (match s0 with
                                                               | [] -> false
                                                               | a0::s1 ->
                                                                 (* If this appears, you're using Ascii internals. Please don't *)
 (fun f c ->
  let n = Char.code c in
  let h i = (n land (1 lsl i)) <> 0 in
  f (h 0) (h 1) (h 2) (h 3) (h 4) (h 5) (h 6) (h 7))
                                                                   (fun b7 b8 b9 b10 b11 b12 b13 b14 ->
                                                                   if b7
                                                                   then 
                                                                    if b8
                                                                    then false
                                                                    else 
                                                                    if b9
                                                                    then 
                                                                    if b10
                                                                    then false
                                                                    else 
                                                                    if b11
                                                                    then false
                                                                    else 
                                                                    if b12
                                                                    then 
                                                                    if b13
                                                                    then 
                                                                    if b14
                                                                    then false
                                                                    else 
                                                                    (match s1 with
                                                                    | [] ->
                                                                    false
                                                                    | a1::s2 ->
                                                                    (* If this appears, you're using Ascii internals. Please don't *)
 (fun f c ->
  let n = Char.code c in
  let h i = (n land (1 lsl i)) <> 0 in
  f (h 0) (h 1) (h 2) (h 3) (h 4) (h 5) (h 6) (h 7))
                                                                    (fun b15 b16 b17 b18 b19 b20 b21 b22 ->
                                                                    if b15
                                                                    then false
                                                                    else 
                                                                    if b16
                                                                    then false
                                                                    else 
                                                                    if b17
                                                                    then 
                                                                    if b18
                                                                    then false
                                                                    else 
                                                                    if b19
                                                                    then 
                                                                    if b20
                                                                    then 
                                                                    if b21
                                                                    then 
                                                                    if b22
                                                                    then false
                                                                    else 
                                                                    (match s2 with
                                                                    | [] ->
                                                                    (match cs0 with
                                                                    | [] ->
                                                                    (match l0 with
                                                                    | [] ->
                                                                    false
                                                                    | _ :: l1 ->
                                                                    (match l1 with
                                                                    | [] ->
                                                                    false
                                                                    | n2 :: l2 ->
                                                                    let Node (
                                                                    t1, decls) =
                                                                    n2
                                                                    in
                                                                    (
                                                                    match t1 with
                                                                    | Lst ->
                                                                    (match l2 with
                                                                    | [] ->
                                                                    (match decls with
                                                                    | [] ->
                                                                    false
                                                                    | _ :: _ ->
                                                                    forallb
                                                                    (fun d ->
                                                                    let Node (
                                                                    t2, cs1) =
                                                                    d
                                                                    in
                                                                    (
                                                                    match t2 with
                                                                    | K (
                                                                    k0, _, _) ->
                                                                    (match k0 with
                                                                    | KVarDeclarator ->
                                                                    (match cs1 with
                                                                    | [] ->
                                                                    false
                                                                    | id :: l3 ->
                                                                    (match l3 with
                                                                    | [] ->
                                                                    false
                                                                    | n1 :: l4 ->
                                                                    let Node (
                                                                    t3, cs2) =
                                                                    n1
                                                                    in
                                                                    (
                                                                    match t3 with
                                                                    | Nul ->
                                                                    (match cs2 with
                                                                    | [] ->
                                                                    (match l4 with
                                                                    | [] ->
                                                                    false
                                                                    | _ :: l5 ->
                                                                    (match l5 with
                                                                    | [] ->
                                                                    (match 
                                                                    ident_sym
                                                                    id with
                                                                    | Some s3 ->
                                                                    prefix vp
                                                                    s3
                                                                    | None ->
                                                                    false)
                                                                    | _ :: _ ->
                                                                    false))
                                                                    | _ :: _ ->
                                                                    false)
                                                                    | _ ->
                                                                    false)))
                                                                    | _ ->
                                                                    false)
                                                                    | _ ->
                                                                    false))
                                                                    decls)
                                                                    | _ :: _ ->
                                                                    false)
                                                                    | _ ->
                                                                    false)))
                                                                    | _ :: _ ->
                                                                    false)
                                                                    | _::_ ->
                                                                    false)
                                                                    else false
                                                                    else false
                                                                    else false
                                                                    else false)
                                                                    a1)
                                                                    else false
                                                                    else false
                                                                    else false
                                                                   else false)
                                                                   a0)
                                                    else false
                                               else false
                                     else false
                                else false)
                      a)
               | _ -> false)))
      | _ -> false)
   | _ -> false)

(** val strip_prefix : node list -> node list -> node list option **)

let rec strip_prefix pre stmts =
  match pre with
  | [] -> Some stmts
  | p :: pre' ->
    (match stmts with
     | [] -> None
     | s :: rest -> if node_eqb p s then strip_prefix pre' rest else None)

(** val strip_injected : char list -> node list -> node list -> node list **)

let strip_injected vp prologue stmts =
  let stmts1 =
    match prologue with
    | [] -> stmts
    | _ :: _ ->
      (match strip_prefix prologue stmts with
       | Some r -> r
       | None -> stmts)
  in
  (match stmts1 with
   | [] -> []
   | s :: rest -> if is_injected_let vp s then rest else stmts1)

(** val first_span : node list -> sp option **)

let first_span = function
| [] -> None
| s :: _ -> Some (span_of s)

(** val opt_span_eqb : sp option -> sp option -> bool **)

let opt_span_eqb a b =
  match a with
  | Some x ->
    (match b with
     | Some y -> (&&) (N.eqb (fst x) (fst y)) (N.eqb (snd x) (snd y))
     | None -> false)
  | None -> (match b with
             | Some _ -> false
             | None -> true)

(** val stmts_dir_ok :
    char list -> node list -> node list -> node list -> bool **)

let stmts_dir_ok vp prologue ins outs =
  (&&) (list_eqb (directives_of ins) (directives_of outs))
    (let rest_out = strip_injected vp prologue (after_directives outs) in
     let rest_in = after_directives ins in
     (&&)
       ((&&) (eqb (length rest_in) (length rest_out))
         (opt_span_eqb (first_span rest_in) (first_span rest_out)))
       (negb (existsb (is_injected_let vp) rest_out)))

(** val blocks_of : node -> (sp * node list) list **)

let rec blocks_of = function
| Node (t, cs) ->
  app
    (match t with
     | K (k, lo, hi) ->
       (match k with
        | KBlock ->
          (match cs with
           | [] -> []
           | _ :: l ->
             (match l with
              | [] -> []
              | n1 :: l0 ->
                let Node (t0, stmts) = n1 in
                (match t0 with
                 | Lst ->
                   (match l0 with
                    | [] ->
                      if is_dummy (lo, hi)
                      then []
                      else ((lo, hi), stmts) :: []
                    | _ :: _ -> [])
                 | _ -> [])))
        | _ -> [])
     | _ -> [])
    (let rec go = function
     | [] -> []
     | c :: l' -> app (blocks_of c) (go l')
     in go cs)

(** val find_block : sp -> (sp * node list) list -> node list option **)

let rec find_block s = function
| [] -> None
| p :: rest ->
  let (s', stmts) = p in
  if (&&) (N.eqb (fst s) (fst s')) (N.eqb (snd s) (snd s'))
  then Some stmts
  else find_block s rest

(** val program_body : node -> node list **)

let program_body = function
| Node (t, cs) ->
  (match t with
   | K (_, _, _) ->
     (match cs with
      | [] -> []
      | n0 :: _ ->
        let Node (t0, body) = n0 in (match t0 with
                                     | Lst -> body
                                     | _ -> []))
   | _ -> [])

(** val blocks_of_list : node list -> (sp * node list) list **)

let blocks_of_list l =
  flat_map blocks_of l

(** val directives_ok :
    char list -> node list -> bool -> node -> node -> bool **)

let directives_ok vp prologue modified pin pout =
  let pro = if modified then prologue else [] in
  let out_body = program_body pout in
  let out_rest =
    match pro with
    | [] -> after_directives out_body
    | _ :: _ ->
      (match strip_prefix pro (after_directives out_body) with
       | Some r -> r
       | None -> after_directives out_body)
  in
  (&&) (stmts_dir_ok vp pro (program_body pin) out_body)
    (let tin = blocks_of pin in
     let tout = blocks_of_list out_rest in
     (&&)
       (forallb (fun b ->
         match find_block (fst b) tin with
         | Some ins -> stmts_dir_ok vp [] ins (snd b)
         | None -> false) tout)
       (forallb (fun b ->
         match find_block (fst b) tout with
         | Some _ -> true
         | None -> false) tin))

(** val tag_eqb_nospan : tag -> tag -> bool **)

let tag_eqb_nospan a b =
  match a with
  | K (k1, _, _) ->
    (match b with
     | K (k2, _, _) -> kind_eqb k1 k2
     | _ -> tag_eqb a b)
  | _ -> tag_eqb a b

(** val node_eqb_nospan : node -> node -> bool **)

let rec node_eqb_nospan a b =
  let Node (ta, ca) = a in
  let Node (tb, cb) = b in
  (&&) (tag_eqb_nospan ta tb)
    (let rec go x y =
       match x with
       | [] -> (match y with
                | [] -> true
                | _ :: _ -> false)
       | p :: x' ->
         (match y with
          | [] -> false
          | q :: y' -> (&&) (node_eqb_nospan p q) (go x' y'))
     in go ca cb)

(** val assoc_str : char list -> (char list * 'a1) list -> 'a1 option **)

let rec assoc_str s = function
| [] -> None
| p :: rest -> let (k, v) = p in if eqb1 s k then Some v else assoc_str s rest

(** val is_temp_ident : char list -> node -> char list option **)

let is_temp_ident vp n0 = match n0 with
| Node (t, _) ->
  (match t with
   | K (k, _, _) ->
     (match k with
      | KIdent ->
        (match ident_sym n0 with
         | Some s -> if prefix vp s then Some s else None
         | None -> None)
      | _ -> None)
   | _ -> None)

(** val subst : char list -> (char list * node) list -> node -> node **)

let rec subst vp env n0 =
  match is_temp_ident vp n0 with
  | Some s -> (match assoc_str s env with
               | Some r -> r
               | None -> n0)
  | None -> let Node (t, cs) = n0 in Node (t, (map (subst vp env) cs))

(** val clean_rhs : node -> node **)

let clean_rhs rhs = match rhs with
| Node (t, cs) ->
  (match t with
   | K (k, lo, hi) ->
     (match k with
      | KArray ->
        (match cs with
         | [] -> rhs
         | n0 :: l ->
           let Node (t0, cs0) = n0 in
           (match t0 with
            | Lst ->
              (match cs0 with
               | [] -> rhs
               | n1 :: l0 ->
                 let Node (t1, cs1) = n1 in
                 (match t1 with
                  | Obj ->
                    (match cs1 with
                     | [] -> rhs
                     | n2 :: l1 ->
                       let Node (t2, _) = n2 in
                       (match t2 with
                        | Obj ->
                          (match l1 with
                           | [] -> rhs
                           | x :: l2 ->
                             (match l2 with
                              | [] ->
                                (match l0 with
                                 | [] ->
                                   (match l with
                                    | [] ->
                                      if is_dummy (lo, hi) then x else rhs
                                    | _ :: _ -> rhs)
                                 | _ :: _ -> rhs)
                              | _ :: _ -> rhs))
                        | _ -> rhs))
                  | _ -> rhs))
            | _ -> rhs))
      | _ -> rhs)
   | _ -> rhs)

(** val split_injected :
    char list -> node list -> ((char list * node) list * node) option **)

let rec split_injected vp = function
| [] -> None
| e :: rest ->
  (match rest with
   | [] -> Some ([], e)
   | _ :: _ ->
     let Node (t, cs) = e in
     (match t with
      | K (k, _, _) ->
        (match k with
         | KAssign ->
           (match cs with
            | [] -> None
            | n0 :: l ->
              let Node (t0, cs0) = n0 in
              (match t0 with
               | Str s ->
                 (match s with
                  | [] -> None
                  | a::s0 ->
                    (* If this appears, you're using Ascii internals. Please don't *)
 (fun f c ->
  let n = Char.code c in
  let h i = (n land (1 lsl i)) <> 0 in
  f (h 0) (h 1) (h 2) (h 3) (h 4) (h 5) (h 6) (h 7))
                      (fun b b0 b1 b2 b3 b4 b5 b6 ->
                      if b
                      then if b0
                           then None
                           else if b1
                                then if b2
                                     then if b3
                                          then if b4
                                               then if b5
                                                    then None
                                                    else if b6
                                                         then None
                                                         else (match s0 with
                                                               | [] ->
                                                                 (match cs0 with
                                                                  | [] ->
                                                                    (match l with
                                                                    | [] ->
                                                                    None
                                                                    | lhs :: l0 ->
                                                                    (match l0 with
                                                                    | [] ->
                                                                    None
                                                                    | rhs :: l1 ->
                                                                    (match l1 with
                                                                    | [] ->
                                                                    (match 
                                                                    is_temp_ident
                                                                    vp lhs with
                                                                    | Some t1 ->
                                                                    (match 
                                                                    split_injected
                                                                    vp rest with
                                                                    | Some p ->
                                                                    let (
                                                                    asg, last) =
                                                                    p
                                                                    in
                                                                    Some
                                                                    (((t1,
                                                                    rhs) :: asg),
                                                                    last)
                                                                    | None ->
                                                                    None)
                                                                    | None ->
                                                                    None)
                                                                    | _ :: _ ->
                                                                    None)))
                                                                  | _ :: _ ->
                                                                    None)
                                                               | _::_ -> None)
                                               else None
                                          else None
                                     else None
                                else None
                      else None)
                      a)
               | _ -> None))
         | _ -> None)
      | _ -> None))

(** val build_env :
    char list -> (char list * node) list -> (char list * node) list ->
    (char list * node) list **)

let rec build_env vp asg env =
  match asg with
  | [] -> env
  | p :: rest ->
    let (t, rhs) = p in
    build_env vp rest ((t, (clean_rhs (subst vp env rhs))) :: env)

(** val same_receiver : char list -> node -> node -> bool **)

let same_receiver vp a b =
  match is_temp_ident vp a with
  | Some x ->
    (match is_temp_ident vp b with
     | Some y -> eqb1 x y
     | None -> false)
  | None ->
    (match is_temp_ident vp b with
     | Some _ -> false
     | None -> (&&) (is_lit a) (node_eqb a b))

(** val uncall : char list -> (char list * node) list -> node -> node **)

let uncall vp raw e = match e with
| Node (t, cs) ->
  (match t with
   | K (k, lo, hi) ->
     (match k with
      | KCall ->
        (match cs with
         | [] -> e
         | cx :: l ->
           (match l with
            | [] -> e
            | n0 :: l0 ->
              let Node (t0, cs0) = n0 in
              (match t0 with
               | K (k0, _, _) ->
                 (match k0 with
                  | KMember ->
                    (match cs0 with
                     | [] -> e
                     | f :: l1 ->
                       (match l1 with
                        | [] -> e
                        | callprop :: l2 ->
                          (match l2 with
                           | [] ->
                             (match l0 with
                              | [] -> e
                              | n1 :: l3 ->
                                let Node (t1, cs1) = n1 in
                                (match t1 with
                                 | Lst ->
                                   (match cs1 with
                                    | [] -> e
                                    | n2 :: rest ->
                                      let Node (t2, cs2) = n2 in
                                      (match t2 with
                                       | Obj ->
                                         (match cs2 with
                                          | [] -> e
                                          | n3 :: l4 ->
                                            let Node (t3, cs3) = n3 in
                                            (match t3 with
                                             | Nul ->
                                               (match cs3 with
                                                | [] ->
                                                  (match l4 with
                                                   | [] -> e
                                                   | this :: l5 ->
                                                     (match l5 with
                                                      | [] ->
                                                        (match l3 with
                                                         | [] -> e
                                                         | targs :: l6 ->
                                                           (match l6 with
                                                            | [] ->
                                                              (match 
                                                               is_temp_ident
                                                                 vp f with
                                                               | Some fname ->
                                                                 (match 
                                                                  ident_name_sym
                                                                    callprop with
                                                                  | Some s ->
                                                                    (match s with
                                                                    | [] -> e
                                                                    | a::s0 ->
                                                                    (* If this appears, you're using Ascii internals. Please don't *)
 (fun f c ->
  let n = Char.code c in
  let h i = (n land (1 lsl i)) <> 0 in
  f (h 0) (h 1) (h 2) (h 3) (h 4) (h 5) (h 6) (h 7))
                                                                    (fun b b0 b1 b2 b3 b4 b5 b6 ->
                                                                    if b
                                                                    then 
                                                                    if b0
                                                                    then 
                                                                    if b1
                                                                    then e
                                                                    else 
                                                                    if b2
                                                                    then e
                                                                    else 
                                                                    if b3
                                                                    then e
                                                                    else 
                                                                    if b4
                                                                    then 
                                                                    if b5
                                                                    then 
                                                                    if b6
                                                                    then e
                                                                    else 
                                                                    (match s0 with
                                                                    | [] -> e
                                                                    | a0::s1 ->
                                                                    (* If this appears, you're using Ascii internals. Please don't *)
 (fun f c ->
  let n = Char.code c in
  let h i = (n land (1 lsl i)) <> 0 in
  f (h 0) (h 1) (h 2) (h 3) (h 4) (h 5) (h 6) (h 7))
                                                                    (fun b7 b8 b9 b10 b11 b12 b13 b14 ->
                                                                    if b7
                                                                    then 
                                                                    if b8
                                                                    then e
                                                                    else 
                                                                    if b9
                                                                    then e
                                                                    else 
                                                                    if b10
                                                                    then e
                                                                    else 
                                                                    if b11
                                                                    then e
                                                                    else 
                                                                    if b12
                                                                    then 
                                                                    if b13
                                                                    then 
                                                                    if b14
                                                                    then e
                                                                    else 
                                                                    (match s1 with
                                                                    | [] -> e
                                                                    | a1::s2 ->
                                                                    (* If this appears, you're using Ascii internals. Please don't *)
 (fun f c ->
  let n = Char.code c in
  let h i = (n land (1 lsl i)) <> 0 in
  f (h 0) (h 1) (h 2) (h 3) (h 4) (h 5) (h 6) (h 7))
                                                                    (fun b15 b16 b17 b18 b19 b20 b21 b22 ->
                                                                    if b15
                                                                    then e
                                                                    else 
                                                                    if b16
                                                                    then e
                                                                    else 
                                                                    if b17
                                                                    then 
                                                                    if b18
                                                                    then 
                                                                    if b19
                                                                    then e
                                                                    else 
                                                                    if b20
                                                                    then 
                                                                    if b21
                                                                    then 
                                                                    if b22
                                                                    then e
                                                                    else 
                                                                    (match s2 with
                                                                    | [] -> e
                                                                    | a2::s3 ->
                                                                    (* If this appears, you're using Ascii internals. Please don't *)
 (fun f c ->
  let n = Char.code c in
  let h i = (n land (1 lsl i)) <> 0 in
  f (h 0) (h 1) (h 2) (h 3) (h 4) (h 5) (h 6) (h 7))
                                                                    (fun b23 b24 b25 b26 b27 b28 b29 b30 ->
                                                                    if b23
                                                                    then e
                                                                    else 
                                                                    if b24
                                                                    then e
                                                                    else 
                                                                    if b25
                                                                    then 
                                                                    if b26
                                                                    then 
                                                                    if b27
                                                                    then e
                                                                    else 
                                                                    if b28
                                                                    then 
                                                                    if b29
                                                                    then 
                                                                    if b30
                                                                    then e
                                                                    else 
                                                                    (match s3 with
                                                                    | [] ->
                                                                    (match 
                                                                    assoc_str
                                                                    fname raw with
                                                                    | Some n4 ->
                                                                    let Node (
                                                                    t4, cs4) =
                                                                    n4
                                                                    in
                                                                    (
                                                                    match t4 with
                                                                    | K (
                                                                    k1, mlo,
                                                                    mhi) ->
                                                                    (match k1 with
                                                                    | KMember ->
                                                                    (match cs4 with
                                                                    | [] -> e
                                                                    | recv :: l7 ->
                                                                    (match l7 with
                                                                    | [] -> e
                                                                    | prop :: l8 ->
                                                                    (match l8 with
                                                                    | [] ->
                                                                    if 
                                                                    same_receiver
                                                                    vp recv
                                                                    this
                                                                    then 
                                                                    Node ((K
                                                                    (KCall,
                                                                    lo, hi)),
                                                                    (cx :: ((Node
                                                                    ((K
                                                                    (KMember,
                                                                    mlo,
                                                                    mhi)),
                                                                    (this :: (prop :: [])))) :: ((Node
                                                                    (Lst,
                                                                    rest)) :: (targs :: [])))))
                                                                    else e
                                                                    | _ :: _ ->
                                                                    e)))
                                                                    | _ -> e)
                                                                    | _ -> e)
                                                                    | None ->
                                                                    e)
                                                                    | _::_ ->
                                                                    e)
                                                                    else e
                                                                    else e
                                                                    else e
                                                                    else e)
                                                                    a2)
                                                                    else e
                                                                    else e
                                                                    else e
                                                                    else e)
                                                                    a1)
                                                                    else e
                                                                    else e
                                                                    else e)
                                                                    a0)
                                                                    else e
                                                                    else e
                                                                    else e
                                                                    else e)
                                                                    a)
                                                                  | None -> e)
                                                               | None -> e)
                                                            | _ :: _ -> e))
                                                      | _ :: _ -> e))
                                                | _ :: _ -> e)
                                             | _ -> e))
                                       | _ -> e))
                                 | _ -> e))
                           | _ :: _ -> e)))
                  | _ -> e)
               | _ -> e)))
      | _ -> e)
   | _ -> e)

(** val guard_parts : char list -> node -> (char list * node) option **)

let guard_parts vp = function
| Node (t, cs) ->
  (match t with
   | K (k, _, _) ->
     (match k with
      | KCond ->
        (match cs with
         | [] -> None
         | n0 :: l ->
           let Node (t0, cs0) = n0 in
           (match t0 with
            | K (k0, _, _) ->
              (match k0 with
               | KBin ->
                 (match cs0 with
                  | [] -> None
                  | n1 :: l0 ->
                    let Node (t1, cs1) = n1 in
                    (match t1 with
                     | Str s ->
                       (match s with
                        | [] -> None
                        | a::s0 ->
                          (* If this appears, you're using Ascii internals. Please don't *)
 (fun f c ->
  let n = Char.code c in
  let h i = (n land (1 lsl i)) <> 0 in
  f (h 0) (h 1) (h 2) (h 3) (h 4) (h 5) (h 6) (h 7))
                            (fun b b0 b1 b2 b3 b4 b5 b6 ->
                            if b
                            then if b0
                                 then None
                                 else if b1
                                      then if b2
                                           then if b3
                                                then if b4
                                                     then if b5
                                                          then None
                                                          else if b6
                                                               then None
                                                               else (match s0 with
                                                                    | [] ->
                                                                    None
                                                                    | a0::s1 ->
                                                                    (* If this appears, you're using Ascii internals. Please don't *)
 (fun f c ->
  let n = Char.code c in
  let h i = (n land (1 lsl i)) <> 0 in
  f (h 0) (h 1) (h 2) (h 3) (h 4) (h 5) (h 6) (h 7))
                                                                    (fun b7 b8 b9 b10 b11 b12 b13 b14 ->
                                                                    if b7
                                                                    then 
                                                                    if b8
                                                                    then None
                                                                    else 
                                                                    if b9
                                                                    then 
                                                                    if b10
                                                                    then 
                                                                    if b11
                                                                    then 
                                                                    if b12
                                                                    then 
                                                                    if b13
                                                                    then None
                                                                    else 
                                                                    if b14
                                                                    then None
                                                                    else 
                                                                    (match s1 with
                                                                    | [] ->
                                                                    (match cs1 with
                                                                    | [] ->
                                                                    (match l0 with
                                                                    | [] ->
                                                                    None
                                                                    | g :: l1 ->
                                                                    (match l1 with
                                                                    | [] ->
                                                                    None
                                                                    | n2 :: l2 ->
                                                                    let Node (
                                                                    t2, _) =
                                                                    n2
                                                                    in
                                                                    (
                                                                    match t2 with
                                                                    | K (
                                                                    k1, _, _) ->
                                                                    (match k1 with
                                                                    | KNullLit ->
                                                                    (match l2 with
                                                                    | [] ->
                                                                    (match l with
                                                                    | [] ->
                                                                    None
                                                                    | u :: l3 ->
                                                                    (match l3 with
                                                                    | [] ->
                                                                    None
                                                                    | alt :: l4 ->
                                                                    (match l4 with
                                                                    | [] ->
                                                                    (match 
                                                                    is_temp_ident
                                                                    vp g with
                                                                    | Some t3 ->
                                                                    (match 
                                                                    ident_sym
                                                                    u with
                                                                    | Some s2 ->
                                                                    (match s2 with
                                                                    | [] ->
                                                                    None
                                                                    | a1::s3 ->
                                                                    (* If this appears, you're using Ascii internals. Please don't *)
 (fun f c ->
  let n = Char.code c in
  let h i = (n land (1 lsl i)) <> 0 in
  f (h 0) (h 1) (h 2) (h 3) (h 4) (h 5) (h 6) (h 7))
                                                                    (fun b15 b16 b17 b18 b19 b20 b21 b22 ->
                                                                    if b15
                                                                    then 
                                                                    if b16
                                                                    then None
                                                                    else 
                                                                    if b17
                                                                    then 
                                                                    if b18
                                                                    then None
                                                                    else 
                                                                    if b19
                                                                    then 
                                                                    if b20
                                                                    then 
                                                                    if b21
                                                                    then 
                                                                    if b22
                                                                    then None
                                                                    else 
                                                                    (match s3 with
                                                                    | [] ->
                                                                    None
                                                                    | a2::s4 ->
                                                                    (* If this appears, you're using Ascii internals. Please don't *)
 (fun f c ->
  let n = Char.code c in
  let h i = (n land (1 lsl i)) <> 0 in
  f (h 0) (h 1) (h 2) (h 3) (h 4) (h 5) (h 6) (h 7))
                                                                    (fun b23 b24 b25 b26 b27 b28 b29 b30 ->
                                                                    if b23
                                                                    then None
                                                                    else 
                                                                    if b24
                                                                    then 
                                                                    if b25
                                                                    then 
                                                                    if b26
                                                                    then 
                                                                    if b27
                                                                    then None
                                                                    else 
                                                                    if b28
                                                                    then 
                                                                    if b29
                                                                    then 
                                                                    if b30
                                                                    then None
                                                                    else 
                                                                    (match s4 with
                                                                    | [] ->
                                                                    None
                                                                    | a3::s5 ->
                                                                    (* If this appears, you're using Ascii internals. Please don't *)
 (fun f c ->
  let n = Char.code c in
  let h i = (n land (1 lsl i)) <> 0 in
  f (h 0) (h 1) (h 2) (h 3) (h 4) (h 5) (h 6) (h 7))
                                                                    (fun b31 b32 b33 b34 b35 b36 b37 b38 ->
                                                                    if b31
                                                                    then None
                                                                    else 
                                                                    if b32
                                                                    then None
                                                                    else 
                                                                    if b33
                                                                    then 
                                                                    if b34
                                                                    then None
                                                                    else 
                                                                    if b35
                                                                    then None
                                                                    else 
                                                                    if b36
                                                                    then 
                                                                    if b37
                                                                    then 
                                                                    if b38
                                                                    then None
                                                                    else 
                                                                    (match s5 with
                                                                    | [] ->
                                                                    None
                                                                    | a4::s6 ->
                                                                    (* If this appears, you're using Ascii internals. Please don't *)
 (fun f c ->
  let n = Char.code c in
  let h i = (n land (1 lsl i)) <> 0 in
  f (h 0) (h 1) (h 2) (h 3) (h 4) (h 5) (h 6) (h 7))
                                                                    (fun b39 b40 b41 b42 b43 b44 b45 b46 ->
                                                                    if b39
                                                                    then 
                                                                    if b40
                                                                    then None
                                                                    else 
                                                                    if b41
                                                                    then 
                                                                    if b42
                                                                    then None
                                                                    else 
                                                                    if b43
                                                                    then None
                                                                    else 
                                                                    if b44
                                                                    then 
                                                                    if b45
                                                                    then 
                                                                    if b46
                                                                    then None
                                                                    else 
                                                                    (match s6 with
                                                                    | [] ->
                                                                    None
                                                                    | a5::s7 ->
                                                                    (* If this appears, you're using Ascii internals. Please don't *)
 (fun f c ->
  let n = Char.code c in
  let h i = (n land (1 lsl i)) <> 0 in
  f (h 0) (h 1) (h 2) (h 3) (h 4) (h 5) (h 6) (h 7))
                                                                    (fun b47 b48 b49 b50 b51 b52 b53 b54 ->
                                                                    if b47
                                                                    then None
                                                                    else 
                                                                    if b48
                                                                    then 
                                                                    if b49
                                                                    then 
                                                                    if b50
                                                                    then None
                                                                    else 
                                                                    if b51
                                                                    then None
                                                                    else 
                                                                    if b52
                                                                    then 
                                                                    if b53
                                                                    then 
                                                                    if b54
                                                                    then None
                                                                    else 
                                                                    (match s7 with
                                                                    | [] ->
                                                                    None
                                                                    | a6::s8 ->
                                                                    (* If this appears, you're using Ascii internals. Please don't *)
 (fun f c ->
  let n = Char.code c in
  let h i = (n land (1 lsl i)) <> 0 in
  f (h 0) (h 1) (h 2) (h 3) (h 4) (h 5) (h 6) (h 7))
                                                                    (fun b55 b56 b57 b58 b59 b60 b61 b62 ->
                                                                    if b55
                                                                    then 
                                                                    if b56
                                                                    then None
                                                                    else 
                                                                    if b57
                                                                    then None
                                                                    else 
                                                                    if b58
                                                                    then 
                                                                    if b59
                                                                    then None
                                                                    else 
                                                                    if b60
                                                                    then 
                                                                    if b61
                                                                    then 
                                                                    if b62
                                                                    then None
                                                                    else 
                                                                    (match s8 with
                                                                    | [] ->
                                                                    None
                                                                    | a7::s9 ->
                                                                    (* If this appears, you're using Ascii internals. Please don't *)
 (fun f c ->
  let n = Char.code c in
  let h i = (n land (1 lsl i)) <> 0 in
  f (h 0) (h 1) (h 2) (h 3) (h 4) (h 5) (h 6) (h 7))
                                                                    (fun b63 b64 b65 b66 b67 b68 b69 b70 ->
                                                                    if b63
                                                                    then None
                                                                    else 
                                                                    if b64
                                                                    then 
                                                                    if b65
                                                                    then 
                                                                    if b66
                                                                    then 
                                                                    if b67
                                                                    then None
                                                                    else 
                                                                    if b68
                                                                    then 
                                                                    if b69
                                                                    then 
                                                                    if b70
                                                                    then None
                                                                    else 
                                                                    (match s9 with
                                                                    | [] ->
                                                                    None
                                                                    | a8::s10 ->
                                                                    (* If this appears, you're using Ascii internals. Please don't *)
 (fun f c ->
  let n = Char.code c in
  let h i = (n land (1 lsl i)) <> 0 in
  f (h 0) (h 1) (h 2) (h 3) (h 4) (h 5) (h 6) (h 7))
                                                                    (fun b71 b72 b73 b74 b75 b76 b77 b78 ->
                                                                    if b71
                                                                    then 
                                                                    if b72
                                                                    then None
                                                                    else 
                                                                    if b73
                                                                    then 
                                                                    if b74
                                                                    then None
                                                                    else 
                                                                    if b75
                                                                    then None
                                                                    else 
                                                                    if b76
                                                                    then 
                                                                    if b77
                                                                    then 
                                                                    if b78
                                                                    then None
                                                                    else 
                                                                    (match s10 with
                                                                    | [] ->
                                                                    None
                                                                    | a9::s11 ->
                                                                    (* If this appears, you're using Ascii internals. Please don't *)
 (fun f c ->
  let n = Char.code c in
  let h i = (n land (1 lsl i)) <> 0 in
  f (h 0) (h 1) (h 2) (h 3) (h 4) (h 5) (h 6) (h 7))
                                                                    (fun b79 b80 b81 b82 b83 b84 b85 b86 ->
                                                                    if b79
                                                                    then None
                                                                    else 
                                                                    if b80
                                                                    then None
                                                                    else 
                                                                    if b81
                                                                    then 
                                                                    if b82
                                                                    then None
                                                                    else 
                                                                    if b83
                                                                    then None
                                                                    else 
                                                                    if b84
                                                                    then 
                                                                    if b85
                                                                    then 
                                                                    if b86
                                                                    then None
                                                                    else 
                                                                    (match s11 with
                                                                    | [] ->
                                                                    Some (t3,
                                                                    alt)
                                                                    | _::_ ->
                                                                    None)
                                                                    else None
                                                                    else None
                                                                    else None)
                                                                    a9)
                                                                    else None
                                                                    else None
                                                                    else None
                                                                    else None)
                                                                    a8)
                                                                    else None
                                                                    else None
                                                                    else None
                                                                    else None
                                                                    else None)
                                                                    a7)
                                                                    else None
                                                                    else None
                                                                    else None
                                                                    else None)
                                                                    a6)
                                                                    else None
                                                                    else None
                                                                    else None
                                                                    else None)
                                                                    a5)
                                                                    else None
                                                                    else None
                                                                    else None
                                                                    else None)
                                                                    a4)
                                                                    else None
                                                                    else None
                                                                    else None)
                                                                    a3)
                                                                    else None
                                                                    else None
                                                                    else None
                                                                    else None
                                                                    else None)
                                                                    a2)
                                                                    else None
                                                                    else None
                                                                    else None
                                                                    else None
                                                                    else None)
                                                                    a1)
                                                                    | None ->
                                                                    None)
                                                                    | None ->
                                                                    None)
                                                                    | _ :: _ ->
                                                                    None)))
                                                                    | _ :: _ ->
                                                                    None)
                                                                    | _ ->
                                                                    None)
                                                                    | _ ->
                                                                    None)))
                                                                    | _ :: _ ->
                                                                    None)
                                                                    | _::_ ->
                                                                    None)
                                                                    else None
                                                                    else None
                                                                    else None
                                                                    else None
                                                                    else None)
                                                                    a0)
                                                     else None
                                                else None
                                           else None
                                      else None
                            else None)
                            a)
                     | _ -> None))
               | _ -> None)
            | _ -> None))
      | _ -> None)
   | _ -> None)

(** val mk_opt : node -> node **)

let mk_opt base =
  Node ((K (KOptChain, N0, N0)), ((Node ((Bln true), [])) :: (base :: [])))

(** val unguard :
    char list -> (char list * node) list -> char list -> node -> node **)

let rec unguard vp raw t n0 =
  let is_t = fun x ->
    match is_temp_ident vp x with
    | Some s -> eqb1 s t
    | None -> false
  in
  let Node (tg, cs) = n0 in
  (match tg with
   | K (k, lo, hi) ->
     (match k with
      | KCall ->
        (match cs with
         | [] -> Node (tg, (map (unguard vp raw t) cs))
         | cx :: l ->
           (match l with
            | [] -> Node (tg, (map (unguard vp raw t) cs))
            | callee :: l0 ->
              (match l0 with
               | [] -> Node (tg, (map (unguard vp raw t) cs))
               | n1 :: l1 ->
                 let Node (t0, args) = n1 in
                 (match t0 with
                  | Lst ->
                    (match l1 with
                     | [] -> Node (tg, (map (unguard vp raw t) cs))
                     | targs :: l2 ->
                       (match l2 with
                        | [] ->
                          if is_t callee
                          then mk_opt n0
                          else let generic = Node ((K (KCall, lo, hi)),
                                 (cx :: ((unguard vp raw t callee) :: ((Node
                                 (Lst,
                                 (map (unguard vp raw t) args))) :: (targs :: [])))))
                               in
                               let Node (t1, cs0) = callee in
                               (match t1 with
                                | K (k0, _, _) ->
                                  (match k0 with
                                   | KMember ->
                                     (match cs0 with
                                      | [] -> generic
                                      | f :: l3 ->
                                        (match l3 with
                                         | [] -> generic
                                         | callprop :: l4 ->
                                           (match l4 with
                                            | [] ->
                                              (match args with
                                               | [] -> generic
                                               | n2 :: rest ->
                                                 let Node (t2, cs1) = n2 in
                                                 (match t2 with
                                                  | Obj ->
                                                    (match cs1 with
                                                     | [] -> generic
                                                     | n3 :: l5 ->
                                                       let Node (t3, cs2) = n3
                                                       in
                                                       (match t3 with
                                                        | Nul ->
                                                          (match cs2 with
                                                           | [] ->
                                                             (match l5 with
                                                              | [] -> generic
                                                              | this :: l6 ->
                                                                (match l6 with
                                                                 | [] ->
                                                                   if 
                                                                    (&&)
                                                                    (is_t f)
                                                                    (match 
                                                                    ident_name_sym
                                                                    callprop with
                                                                    | Some s ->
                                                                    (match s with
                                                                    | [] ->
                                                                    false
                                                                    | a::s0 ->
                                                                    (* If this appears, you're using Ascii internals. Please don't *)
 (fun f c ->
  let n = Char.code c in
  let h i = (n land (1 lsl i)) <> 0 in
  f (h 0) (h 1) (h 2) (h 3) (h 4) (h 5) (h 6) (h 7))
                                                                    (fun b b0 b1 b2 b3 b4 b5 b6 ->
                                                                    if b
                                                                    then 
                                                                    if b0
                                                                    then 
                                                                    if b1
                                                                    then false
                                                                    else 
                                                                    if b2
                                                                    then false
                                                                    else 
                                                                    if b3
                                                                    then false
                                                                    else 
                                                                    if b4
                                                                    then 
                                                                    if b5
                                                                    then 
                                                                    if b6
                                                                    then false
                                                                    else 
                                                                    (match s0 with
                                                                    | [] ->
                                                                    false
                                                                    | a0::s1 ->
                                                                    (* If this appears, you're using Ascii internals. Please don't *)
 (fun f c ->
  let n = Char.code c in
  let h i = (n land (1 lsl i)) <> 0 in
  f (h 0) (h 1) (h 2) (h 3) (h 4) (h 5) (h 6) (h 7))
                                                                    (fun b7 b8 b9 b10 b11 b12 b13 b14 ->
                                                                    if b7
                                                                    then 
                                                                    if b8
                                                                    then false
                                                                    else 
                                                                    if b9
                                                                    then false
                                                                    else 
                                                                    if b10
                                                                    then false
                                                                    else 
                                                                    if b11
                                                                    then false
                                                                    else 
                                                                    if b12
                                                                    then 
                                                                    if b13
                                                                    then 
                                                                    if b14
                                                                    then false
                                                                    else 
                                                                    (match s1 with
                                                                    | [] ->
                                                                    false
                                                                    | a1::s2 ->
                                                                    (* If this appears, you're using Ascii internals. Please don't *)
 (fun f c ->
  let n = Char.code c in
  let h i = (n land (1 lsl i)) <> 0 in
  f (h 0) (h 1) (h 2) (h 3) (h 4) (h 5) (h 6) (h 7))
                                                                    (fun b15 b16 b17 b18 b19 b20 b21 b22 ->
                                                                    if b15
                                                                    then false
                                                                    else 
                                                                    if b16
                                                                    then false
                                                                    else 
                                                                    if b17
                                                                    then 
                                                                    if b18
                                                                    then 
                                                                    if b19
                                                                    then false
                                                                    else 
                                                                    if b20
                                                                    then 
                                                                    if b21
                                                                    then 
                                                                    if b22
                                                                    then false
                                                                    else 
                                                                    (match s2 with
                                                                    | [] ->
                                                                    false
                                                                    | a2::s3 ->
                                                                    (* If this appears, you're using Ascii internals. Please don't *)
 (fun f c ->
  let n = Char.code c in
  let h i = (n land (1 lsl i)) <> 0 in
  f (h 0) (h 1) (h 2) (h 3) (h 4) (h 5) (h 6) (h 7))
                                                                    (fun b23 b24 b25 b26 b27 b28 b29 b30 ->
                                                                    if b23
                                                                    then false
                                                                    else 
                                                                    if b24
                                                                    then false
                                                                    else 
                                                                    if b25
                                                                    then 
                                                                    if b26
                                                                    then 
                                                                    if b27
                                                                    then false
                                                                    else 
                                                                    if b28
                                                                    then 
                                                                    if b29
                                                                    then 
                                                                    if b30
                                                                    then false
                                                                    else 
                                                                    (match s3 with
                                                                    | [] ->
                                                                    true
                                                                    | _::_ ->
                                                                    false)
                                                                    else false
                                                                    else false
                                                                    else false
                                                                    else false)
                                                                    a2)
                                                                    else false
                                                                    else false
                                                                    else false
                                                                    else false)
                                                                    a1)
                                                                    else false
                                                                    else false
                                                                    else false)
                                                                    a0)
                                                                    else false
                                                                    else false
                                                                    else false
                                                                    else false)
                                                                    a)
                                                                    | None ->
                                                                    false)
                                                                   then 
                                                                    (match 
                                                                    assoc_str
                                                                    t raw with
                                                                    | Some n4 ->
                                                                    let Node (
                                                                    t4, cs3) =
                                                                    n4
                                                                    in
                                                                    (
                                                                    match t4 with
                                                                    | K (
                                                                    k1, mlo,
                                                                    mhi) ->
                                                                    (match k1 with
                                                                    | KMember ->
                                                                    (match cs3 with
                                                                    | [] ->
                                                                    generic
                                                                    | recv :: l7 ->
                                                                    (match l7 with
                                                                    | [] ->
                                                                    generic
                                                                    | prop :: l8 ->
                                                                    (match l8 with
                                                                    | [] ->
                                                                    if 
                                                                    same_receiver
                                                                    vp recv
                                                                    this
                                                                    then 
                                                                    mk_opt
                                                                    (Node ((K
                                                                    (KCall,
                                                                    lo, hi)),
                                                                    (cx :: ((Node
                                                                    ((K
                                                                    (KMember,
                                                                    mlo,
                                                                    mhi)),
                                                                    (this :: (prop :: [])))) :: ((Node
                                                                    (Lst,
                                                                    rest)) :: (targs :: []))))))
                                                                    else 
                                                                    generic
                                                                    | _ :: _ ->
                                                                    generic)))
                                                                    | _ ->
                                                                    generic)
                                                                    | _ ->
                                                                    generic)
                                                                    | None ->
                                                                    generic)
                                                                   else 
                                                                    generic
                                                                 | _ :: _ ->
                                                                   generic))
                                                           | _ :: _ -> generic)
                                                        | _ -> generic))
                                                  | _ -> generic))
                                            | _ :: _ -> generic)))
                                   | _ -> generic)
                                | _ -> generic)
                        | _ :: _ -> Node (tg, (map (unguard vp raw t) cs))))
                  | _ -> Node (tg, (map (unguard vp raw t) cs))))))
      | KMember ->
        (match cs with
         | [] -> Node (tg, (map (unguard vp raw t) cs))
         | obj :: l ->
           (match l with
            | [] -> Node (tg, (map (unguard vp raw t) cs))
            | prop :: l0 ->
              (match l0 with
               | [] ->
                 if is_t obj
                 then if is_dummy (lo, hi)
                      then mk_opt n0
                      else Node ((K (KMember, lo, hi)),
                             ((unguard vp raw t obj) :: (prop :: [])))
                 else Node ((K (KMember, lo, hi)),
                        ((unguard vp raw t obj) :: ((unguard vp raw t prop) :: [])))
               | _ :: _ -> Node (tg, (map (unguard vp raw t) cs)))))
      | _ -> Node (tg, (map (unguard vp raw t) cs)))
   | _ -> Node (tg, (map (unguard vp raw t) cs)))

(** val collapse_seq : char list -> node list -> node option **)

let collapse_seq vp es =
  match split_injected vp es with
  | Some p ->
    let (asg, last) = p in
    (match asg with
     | [] -> None
     | _ :: _ ->
       let env = build_env vp asg [] in
       (match guard_parts vp last with
        | Some p0 ->
          let (t, alt) = p0 in Some (subst vp env (unguard vp asg t alt))
        | None -> Some (subst vp env (uncall vp asg last))))
  | None -> None

(** val unarrow : node -> node **)

let unarrow n0 = match n0 with
| Node (t, cs) ->
  (match t with
   | K (k, lo, hi) ->
     (match k with
      | KArrow ->
        (match cs with
         | [] -> n0
         | cx :: l ->
           (match l with
            | [] -> n0
            | params :: l0 ->
              (match l0 with
               | [] -> n0
               | n1 :: l1 ->
                 let Node (t0, cs0) = n1 in
                 (match t0 with
                  | K (k0, blo, bhi) ->
                    (match k0 with
                     | KBlock ->
                       (match cs0 with
                        | [] -> n0
                        | _ :: l2 ->
                          (match l2 with
                           | [] -> n0
                           | n2 :: l3 ->
                             let Node (t1, cs1) = n2 in
                             (match t1 with
                              | Lst ->
                                (match cs1 with
                                 | [] -> n0
                                 | n3 :: l4 ->
                                   let Node (t2, cs2) = n3 in
                                   (match t2 with
                                    | K (k1, rlo, rhi) ->
                                      (match k1 with
                                       | KReturn ->
                                         (match cs2 with
                                          | [] -> n0
                                          | e :: l5 ->
                                            (match l5 with
                                             | [] ->
                                               (match l4 with
                                                | [] ->
                                                  (match l3 with
                                                   | [] ->
                                                     (match l1 with
                                                      | [] -> n0
                                                      | asy :: l6 ->
                                                        (match l6 with
                                                         | [] -> n0
                                                         | gen :: l7 ->
                                                           (match l7 with
                                                            | [] -> n0
                                                            | tp :: l8 ->
                                                              (match l8 with
                                                               | [] -> n0
                                                               | rt :: l9 ->
                                                                 (match l9 with
                                                                  | [] ->
                                                                    if 
                                                                    (&&)
                                                                    ((&&)
                                                                    (is_dummy
                                                                    (blo,
                                                                    bhi))
                                                                    (is_dummy
                                                                    (rlo,
                                                                    rhi)))
                                                                    (negb
                                                                    (
                                                                    let Node (
                                                                    t3, _) = e
                                                                    in
                                                                    (
                                                                    match t3 with
                                                                    | Nul ->
                                                                    true
                                                                    | _ ->
                                                                    false)))
                                                                    then 
                                                                    Node ((K
                                                                    (KArrow,
                                                                    lo, hi)),
                                                                    (cx :: (params :: (e :: (asy :: (gen :: (tp :: (rt :: []))))))))
                                                                    else n0
                                                                  | _ :: _ ->
                                                                    n0)))))
                                                   | _ :: _ -> n0)
                                                | _ :: _ -> n0)
                                             | _ :: _ -> n0))
                                       | _ -> n0)
                                    | _ -> n0))
                              | _ -> n0)))
                     | _ -> n0)
                  | _ -> n0))))
      | _ -> n0)
   | _ -> n0)

(** val strip_let : char list -> node list -> node list **)

let strip_let vp stmts =
  app (directives_of stmts)
    (match after_directives stmts with
     | [] -> []
     | s :: rest -> if is_injected_let vp s then rest else s :: rest)

(** val post : char list -> node -> node **)

let post vp n0 = match n0 with
| Node (t, cs) ->
  (match t with
   | K (k, lo, hi) ->
     (match k with
      | KBlock ->
        (match cs with
         | [] -> n0
         | cx :: l ->
           (match l with
            | [] -> n0
            | n1 :: l0 ->
              let Node (t0, stmts) = n1 in
              (match t0 with
               | Lst ->
                 (match l0 with
                  | [] ->
                    Node ((K (KBlock, lo, hi)), (cx :: ((Node (Lst,
                      (strip_let vp stmts))) :: [])))
                  | _ :: _ -> n0)
               | _ -> n0)))
      | KCall ->
        (match hook_call n0 with
         | Some p ->
           let (_, l) = p in
           (match l with
            | [] -> n0
            | a0 :: _ -> (match arg_expr a0 with
                          | Some e -> e
                          | None -> n0))
         | None -> n0)
      | KArrow -> unarrow n0
      | KParen ->
        (match cs with
         | [] -> n0
         | n1 :: l ->
           let Node (t0, cs0) = n1 in
           (match t0 with
            | K (k0, _, _) ->
              (match k0 with
               | KSeq ->
                 (match cs0 with
                  | [] -> n0
                  | n2 :: l0 ->
                    let Node (t1, es) = n2 in
                    (match t1 with
                     | Lst ->
                       (match l0 with
                        | [] ->
                          (match l with
                           | [] ->
                             (match collapse_seq vp es with
                              | Some e -> e
                              | None -> n0)
                           | _ :: _ -> n0)
                        | _ :: _ -> n0)
                     | _ -> n0))
               | _ -> n0)
            | _ -> n0))
      | _ -> n0)
   | _ -> n0)

(** val erase_node : char list -> node -> node **)

let rec erase_node vp = function
| Node (t, cs) -> post vp (Node (t, (map (erase_node vp) cs)))

(** val strip_prologue : node list -> node list -> node list **)

let strip_prologue prologue body =
  app (directives_of body)
    (match prologue with
     | [] -> after_directives body
     | _ :: _ ->
       (match strip_prefix prologue (after_directives body) with
        | Some rest -> rest
        | None -> after_directives body))

(** val erase : char list -> node list -> bool -> node -> node **)

let erase vp prologue modified prog =
  let Node (t, cs) = erase_node vp prog in
  (match t with
   | K (k, lo, hi) ->
     (match cs with
      | [] -> Node ((K (k, lo, hi)), [])
      | n0 :: rest ->
        let Node (t0, body) = n0 in
        (match t0 with
         | Lst ->
           Node ((K (k, lo, hi)), ((Node (Lst,
             (if modified then strip_prologue prologue body else body))) :: rest))
         | x -> Node ((K (k, lo, hi)), ((Node (x, body)) :: rest))))
   | x -> Node (x, cs))

(** val lower_post : bool -> node -> node **)

let lower_post plus n0 = match n0 with
| Node (t, cs) ->
  (match t with
   | K (k, lo, hi) ->
     (match k with
      | KAssign ->
        (match cs with
         | [] -> n0
         | n1 :: l ->
           let Node (t0, cs0) = n1 in
           (match t0 with
            | Str s ->
              (match s with
               | [] -> n0
               | a::s0 ->
                 (* If this appears, you're using Ascii internals. Please don't *)
 (fun f c ->
  let n = Char.code c in
  let h i = (n land (1 lsl i)) <> 0 in
  f (h 0) (h 1) (h 2) (h 3) (h 4) (h 5) (h 6) (h 7))
                   (fun b b0 b1 b2 b3 b4 b5 b6 ->
                   if b
                   then if b0
                        then if b1
                             then n0
                             else if b2
                                  then if b3
                                       then n0
                                       else if b4
                                            then if b5
                                                 then n0
                                                 else if b6
                                                      then n0
                                                      else (match s0 with
                                                            | [] -> n0
                                                            | a0::s1 ->
                                                              (* If this appears, you're using Ascii internals. Please don't *)
 (fun f c ->
  let n = Char.code c in
  let h i = (n land (1 lsl i)) <> 0 in
  f (h 0) (h 1) (h 2) (h 3) (h 4) (h 5) (h 6) (h 7))
                                                                (fun b7 b8 b9 b10 b11 b12 b13 b14 ->
                                                                if b7
                                                                then 
                                                                  if b8
                                                                  then n0
                                                                  else 
                                                                    if b9
                                                                    then 
                                                                    if b10
                                                                    then 
                                                                    if b11
                                                                    then 
                                                                    if b12
                                                                    then 
                                                                    if b13
                                                                    then n0
                                                                    else 
                                                                    if b14
                                                                    then n0
                                                                    else 
                                                                    (match s1 with
                                                                    | [] ->
                                                                    (match cs0 with
                                                                    | [] ->
                                                                    (match l with
                                                                    | [] -> n0
                                                                    | lhs :: l0 ->
                                                                    (match l0 with
                                                                    | [] -> n0
                                                                    | rhs :: l1 ->
                                                                    (match l1 with
                                                                    | [] ->
                                                                    if plus
                                                                    then 
                                                                    let target_expr =
                                                                    let Node (
                                                                    t1, cs1) =
                                                                    lhs
                                                                    in
                                                                    (
                                                                    match t1 with
                                                                    | K (
                                                                    k0, l2, h) ->
                                                                    (match k0 with
                                                                    | KIdent ->
                                                                    (match cs1 with
                                                                    | [] ->
                                                                    lhs
                                                                    | cx :: l3 ->
                                                                    (match l3 with
                                                                    | [] ->
                                                                    lhs
                                                                    | sym :: l4 ->
                                                                    (match l4 with
                                                                    | [] ->
                                                                    lhs
                                                                    | opt :: l5 ->
                                                                    (match l5 with
                                                                    | [] ->
                                                                    lhs
                                                                    | _ :: l6 ->
                                                                    (match l6 with
                                                                    | [] ->
                                                                    Node ((K
                                                                    (KIdent,
                                                                    l2, h)),
                                                                    (cx :: (sym :: (opt :: []))))
                                                                    | _ :: _ ->
                                                                    lhs)))))
                                                                    | _ -> lhs)
                                                                    | _ -> lhs)
                                                                    in
                                                                    Node ((K
                                                                    (KAssign,
                                                                    lo, hi)),
                                                                    ((Node
                                                                    ((Str
                                                                    ('='::[])),
                                                                    [])) :: (lhs :: ((Node
                                                                    ((K
                                                                    (KBin,
                                                                    lo, hi)),
                                                                    ((Node
                                                                    ((Str
                                                                    ('+'::[])),
                                                                    [])) :: (target_expr :: (rhs :: []))))) :: []))))
                                                                    else n0
                                                                    | _ :: _ ->
                                                                    n0)))
                                                                    | _ :: _ ->
                                                                    n0)
                                                                    | _::_ ->
                                                                    n0)
                                                                    else n0
                                                                    else n0
                                                                    else n0
                                                                    else n0
                                                                else n0)
                                                                a0)
                                            else n0
                                  else n0
                        else n0
                   else n0)
                   a)
            | _ -> n0))
      | KOptChain ->
        (match cs with
         | [] -> n0
         | n1 :: l ->
           let Node (t0, cs0) = n1 in
           (match t0 with
            | Bln b ->
              if b
              then n0
              else (match cs0 with
                    | [] ->
                      (match l with
                       | [] -> n0
                       | base :: l0 ->
                         (match l0 with
                          | [] -> base
                          | _ :: _ -> n0))
                    | _ :: _ -> n0)
            | _ -> n0))
      | _ -> n0)
   | _ -> n0)

(** val lower : bool -> node -> node **)

let rec lower plus = function
| Node (t, cs) -> lower_post plus (Node (t, (map (lower plus) cs)))

(** val spine_has_optional : node -> bool **)

let rec spine_has_optional = function
| Node (t, cs) ->
  (match t with
   | K (k, _, _) ->
     (match k with
      | KCall ->
        (match cs with
         | [] -> false
         | _ :: l ->
           (match l with
            | [] -> false
            | callee :: l0 ->
              (match l0 with
               | [] -> false
               | _ :: l1 ->
                 (match l1 with
                  | [] -> false
                  | _ :: l2 ->
                    (match l2 with
                     | [] -> spine_has_optional callee
                     | _ :: _ -> false)))))
      | KMember ->
        (match cs with
         | [] -> false
         | obj :: l ->
           (match l with
            | [] -> false
            | _ :: l0 ->
              (match l0 with
               | [] -> spine_has_optional obj
               | _ :: _ -> false)))
      | KOptChain ->
        (match cs with
         | [] -> false
         | n1 :: l ->
           let Node (t0, cs0) = n1 in
           (match t0 with
            | Bln b ->
              if b
              then (match cs0 with
                    | [] ->
                      (match l with
                       | [] -> false
                       | _ :: l0 ->
                         (match l0 with
                          | [] -> true
                          | _ :: _ -> false))
                    | _ :: _ ->
                      (match l with
                       | [] -> false
                       | base :: l1 ->
                         (match l1 with
                          | [] -> spine_has_optional base
                          | _ :: _ -> false)))
              else (match l with
                    | [] -> false
                    | base :: l0 ->
                      (match l0 with
                       | [] -> spine_has_optional base
                       | _ :: _ -> false))
            | _ ->
              (match l with
               | [] -> false
               | base :: l0 ->
                 (match l0 with
                  | [] -> spine_has_optional base
                  | _ :: _ -> false))))
      | _ -> false)
   | _ -> false)

(** val strip_parens : node -> node **)

let rec strip_parens = function
| Node (t, cs) ->
  let n' = Node (t, (map strip_parens cs)) in
  let Node (t0, cs0) = n' in
  (match t0 with
   | K (k, _, _) ->
     (match k with
      | KParen ->
        (match cs0 with
         | [] -> n'
         | e :: l ->
           (match l with
            | [] -> if spine_has_optional e then n' else e
            | _ :: _ -> n'))
      | _ -> n')
   | _ -> n')

(** val erase_ok :
    char list -> node list -> bool -> bool -> node -> node -> bool **)

let erase_ok vp prologue plus modified pin pout =
  node_eqb_nospan
    (strip_parens (lower plus (erase vp prologue modified pout)))
    (strip_parens (lower plus pin))

(** val first_diff_nospan : node -> node -> nat list option **)

let rec first_diff_nospan a b =
  let Node (ta, ca) = a in
  let Node (tb, cb) = b in
  if negb (tag_eqb_nospan ta tb)
  then Some []
  else let rec go i x y =
         match x with
         | [] -> (match y with
                  | [] -> None
                  | _ :: _ -> Some (i :: []))
         | p :: x' ->
           (match y with
            | [] -> Some (i :: [])
            | q :: y' ->
              (match first_diff_nospan p q with
               | Some path -> Some (i :: path)
               | None -> go (S i) x' y'))
       in go O ca cb

(** val norm_post : node -> node **)

let norm_post n0 = match n0 with
| Node (t, cs) ->
  (match t with
   | K (k, lo, hi) ->
     (match k with
      | KTplElem ->
        (match cs with
         | [] -> n0
         | tail :: l ->
           (match l with
            | [] -> n0
            | _ :: l0 ->
              (match l0 with
               | [] -> n0
               | raw :: l1 ->
                 (match l1 with
                  | [] -> Node ((K (KTplElem, lo, hi)), (tail :: (raw :: [])))
                  | _ :: _ -> n0))))
      | KOptChain ->
        (match cs with
         | [] -> n0
         | n1 :: l ->
           let Node (t0, cs0) = n1 in
           (match t0 with
            | Bln b ->
              if b
              then n0
              else (match cs0 with
                    | [] ->
                      (match l with
                       | [] -> n0
                       | base :: l0 ->
                         (match l0 with
                          | [] -> base
                          | _ :: _ -> n0))
                    | _ :: _ -> n0)
            | _ -> n0))
      | KParen ->
        (match cs with
         | [] -> n0
         | e :: l ->
           (match l with
            | [] -> if spine_has_optional e then n0 else e
            | _ :: _ -> n0))
      | KStr ->
        (match cs with
         | [] -> n0
         | v :: _ -> Node ((K (KStr, lo, hi)), (v :: [])))
      | KNum ->
        (match cs with
         | [] -> n0
         | v :: _ -> Node ((K (KNum, lo, hi)), (v :: [])))
      | KBigInt ->
        (match cs with
         | [] -> n0
         | v :: _ -> Node ((K (KBigInt, lo, hi)), (v :: [])))
      | _ -> n0)
   | Obj ->
     (match cs with
      | [] -> n0
      | n1 :: l ->
        let Node (t0, cs0) = n1 in
        (match t0 with
         | Num _ ->
           (match cs0 with
            | [] ->
              (match l with
               | [] -> n0
               | n2 :: l0 ->
                 let Node (t1, cs1) = n2 in
                 (match t1 with
                  | Num _ ->
                    (match cs1 with
                     | [] ->
                       (match l0 with
                        | [] ->
                          Node (Obj,
                            ((nNum ('0'::[])) :: ((nNum ('0'::[])) :: [])))
                        | _ :: _ -> n0)
                     | _ :: _ -> n0)
                  | _ -> n0))
            | _ :: _ -> n0)
         | _ -> n0))
   | Lst -> Node (Lst, (filter (fun x -> negb (is_kind KEmptyStmt x)) cs))
   | _ -> n0)

(** val norm_print : node -> node **)

let rec norm_print = function
| Node (t, cs) -> norm_post (Node (t, (map norm_print cs)))

(** val roundtrip_ok : node -> node -> bool **)

let roundtrip_ok out reparsed =
  node_eqb_nospan (norm_print out) (norm_print reparsed)

type site_cfg = { sc_plus : bool; sc_tpl : bool; sc_methods : char list list;
                  sc_lit_callers : char list list }

type site = { s_key : sp; s_what : char list; s_class : char list }

type wctx = { in_block : bool; excluded : bool; cls : char list }

(** val mem_str : char list -> char list list -> bool **)

let mem_str s l =
  existsb (eqb1 s) l

(** val lit_sum : node -> bool **)

let rec lit_sum e = match e with
| Node (t, cs) ->
  (match t with
   | K (k, _, _) ->
     (match k with
      | KBin ->
        (match cs with
         | [] -> is_lit e
         | n0 :: l0 ->
           let Node (t0, cs0) = n0 in
           (match t0 with
            | Str s ->
              (match s with
               | [] -> is_lit e
               | a::s0 ->
                 (* If this appears, you're using Ascii internals. Please don't *)
 (fun f c ->
  let n = Char.code c in
  let h i = (n land (1 lsl i)) <> 0 in
  f (h 0) (h 1) (h 2) (h 3) (h 4) (h 5) (h 6) (h 7))
                   (fun b b0 b1 b2 b3 b4 b5 b6 ->
                   if b
                   then if b0
                        then if b1
                             then is_lit e
                             else if b2
                                  then if b3
                                       then is_lit e
                                       else if b4
                                            then if b5
                                                 then is_lit e
                                                 else if b6
                                                      then is_lit e
                                                      else (match s0 with
                                                            | [] ->
                                                              (match cs0 with
                                                               | [] ->
                                                                 (match l0 with
                                                                  | [] ->
                                                                    is_lit e
                                                                  | l :: l1 ->
                                                                    (match l1 with
                                                                    | [] ->
                                                                    is_lit e
                                                                    | r :: l2 ->
                                                                    (match l2 with
                                                                    | [] ->
                                                                    (&&)
                                                                    (lit_sum
                                                                    l)
                                                                    (lit_sum
                                                                    r)
                                                                    | _ :: _ ->
                                                                    is_lit e)))
                                                               | _ :: _ ->
                                                                 is_lit e)
                                                            | _::_ -> is_lit e)
                                            else is_lit e
                                  else is_lit e
                        else is_lit e
                   else is_lit e)
                   a)
            | _ -> is_lit e))
      | _ -> is_lit e)
   | _ -> is_lit e)

(** val tpl_all_nonlit : node list -> bool **)

let tpl_all_nonlit es = match es with
| [] -> false
| _ :: _ -> forallb (fun e -> negb (is_lit e)) es

(** val tpl_has_lit : node list -> bool **)

let tpl_has_lit es =
  existsb is_lit es

(** val undefined_or_null : node -> bool **)

let undefined_or_null e =
  match ident_sym e with
  | Some s ->
    (||)
      (eqb1 s
        ('u'::('n'::('d'::('e'::('f'::('i'::('n'::('e'::('d'::[]))))))))))
      (eqb1 s ('n'::('u'::('l'::('l'::[])))))
  | None -> false

(** val arg_lit_like : node -> bool **)

let arg_lit_like a =
  match arg_expr a with
  | Some e -> (||) (is_lit e) (undefined_or_null e)
  | None -> false

(** val site_here :
    site_cfg -> node -> ((sp * char list) * char list) list **)

let site_here c = function
| Node (t, cs) ->
  (match t with
   | K (k, lo, hi) ->
     (match k with
      | KBin ->
        (match cs with
         | [] -> []
         | n1 :: l0 ->
           let Node (t0, cs0) = n1 in
           (match t0 with
            | Str s ->
              (match s with
               | [] -> []
               | a::s0 ->
                 (* If this appears, you're using Ascii internals. Please don't *)
 (fun f c ->
  let n = Char.code c in
  let h i = (n land (1 lsl i)) <> 0 in
  f (h 0) (h 1) (h 2) (h 3) (h 4) (h 5) (h 6) (h 7))
                   (fun b b0 b1 b2 b3 b4 b5 b6 ->
                   if b
                   then if b0
                        then if b1
                             then []
                             else if b2
                                  then if b3
                                       then []
                                       else if b4
                                            then if b5
                                                 then []
                                                 else if b6
                                                      then []
                                                      else (match s0 with
                                                            | [] ->
                                                              (match cs0 with
                                                               | [] ->
                                                                 (match l0 with
                                                                  | [] -> []
                                                                  | l :: l1 ->
                                                                    (match l1 with
                                                                    | [] -> []
                                                                    | r :: l2 ->
                                                                    (match l2 with
                                                                    | [] ->
                                                                    if 
                                                                    (&&)
                                                                    c.sc_plus
                                                                    (negb
                                                                    ((&&)
                                                                    (lit_sum
                                                                    l)
                                                                    (lit_sum
                                                                    r)))
                                                                    then 
                                                                    (((lo,
                                                                    hi),
                                                                    ('+'::[])),
                                                                    []) :: []
                                                                    else []
                                                                    | _ :: _ ->
                                                                    [])))
                                                               | _ :: _ -> [])
                                                            | _::_ -> [])
                                            else []
                                  else []
                        else []
                   else [])
                   a)
            | _ -> []))
      | KAssign ->
        (match cs with
         | [] -> []
         | n1 :: l ->
           let Node (t0, cs0) = n1 in
           (match t0 with
            | Str s ->
              (match s with
               | [] -> []
               | a::s0 ->
                 (* If this appears, you're using Ascii internals. Please don't *)
 (fun f c ->
  let n = Char.code c in
  let h i = (n land (1 lsl i)) <> 0 in
  f (h 0) (h 1) (h 2) (h 3) (h 4) (h 5) (h 6) (h 7))
                   (fun b b0 b1 b2 b3 b4 b5 b6 ->
                   if b
                   then if b0
                        then if b1
                             then []
                             else if b2
                                  then if b3
                                       then []
                                       else if b4
                                            then if b5
                                                 then []
                                                 else if b6
                                                      then []
                                                      else (match s0 with
                                                            | [] -> []
                                                            | a0::s1 ->
                                                              (* If this appears, you're using Ascii internals. Please don't *)
 (fun f c ->
  let n = Char.code c in
  let h i = (n land (1 lsl i)) <> 0 in
  f (h 0) (h 1) (h 2) (h 3) (h 4) (h 5) (h 6) (h 7))
                                                                (fun b7 b8 b9 b10 b11 b12 b13 b14 ->
                                                                if b7
                                                                then 
                                                                  if b8
                                                                  then []
                                                                  else 
                                                                    if b9
                                                                    then 
                                                                    if b10
                                                                    then 
                                                                    if b11
                                                                    then 
                                                                    if b12
                                                                    then 
                                                                    if b13
                                                                    then []
                                                                    else 
                                                                    if b14
                                                                    then []
                                                                    else 
                                                                    (match s1 with
                                                                    | [] ->
                                                                    (match cs0 with
                                                                    | [] ->
                                                                    (match l with
                                                                    | [] -> []
                                                                    | _ :: l0 ->
                                                                    (match l0 with
                                                                    | [] -> []
                                                                    | _ :: l1 ->
                                                                    (match l1 with
                                                                    | [] ->
                                                                    if c.sc_plus
                                                                    then 
                                                                    (((lo,
                                                                    hi),
                                                                    ('+'::('='::[]))),
                                                                    []) :: []
                                                                    else []
                                                                    | _ :: _ ->
                                                                    [])))
                                                                    | _ :: _ ->
                                                                    [])
                                                                    | _::_ ->
                                                                    [])
                                                                    else []
                                                                    else []
                                                                    else []
                                                                    else []
                                                                else [])
                                                                a0)
                                            else []
                                  else []
                        else []
                   else [])
                   a)
            | _ -> []))
      | KTpl ->
        (match cs with
         | [] -> []
         | n1 :: l ->
           let Node (t0, es) = n1 in
           (match t0 with
            | Lst ->
              (match l with
               | [] -> []
               | _ :: l0 ->
                 (match l0 with
                  | [] ->
                    if (&&) c.sc_tpl (tpl_all_nonlit es)
                    then (((lo, hi), ('T'::('p'::('l'::[])))), []) :: []
                    else []
                  | _ :: _ -> []))
            | _ -> []))
      | KCall ->
        (match cs with
         | [] -> []
         | _ :: l ->
           (match l with
            | [] -> []
            | n1 :: l0 ->
              let Node (t0, cs0) = n1 in
              (match t0 with
               | K (k0, _, _) ->
                 (match k0 with
                  | KMember ->
                    (match cs0 with
                     | [] -> []
                     | obj :: l1 ->
                       (match l1 with
                        | [] -> []
                        | prop :: l2 ->
                          (match l2 with
                           | [] ->
                             (match l0 with
                              | [] -> []
                              | n2 :: l3 ->
                                let Node (t1, args) = n2 in
                                (match t1 with
                                 | Lst ->
                                   (match l3 with
                                    | [] -> []
                                    | _ :: l4 ->
                                      (match l4 with
                                       | [] ->
                                         (match ident_name_sym prop with
                                          | Some m ->
                                            if mem_str m c.sc_methods
                                            then let ok =
                                                   if is_lit obj
                                                   then mem_str m
                                                          c.sc_lit_callers
                                                   else if (||)
                                                             ((||)
                                                               ((||)
                                                                 (is_ident
                                                                   obj)
                                                                 (is_kind
                                                                   KCall obj))
                                                               (is_kind
                                                                 KParen obj))
                                                             (is_kind KArray
                                                               obj)
                                                        then true
                                                        else let Node (
                                                               t2, cs1) = obj
                                                             in
                                                             (match t2 with
                                                              | K (k1, _, _) ->
                                                                (match k1 with
                                                                 | KMember ->
                                                                   (match cs1 with
                                                                    | [] ->
                                                                    false
                                                                    | _ :: l5 ->
                                                                    (match l5 with
                                                                    | [] ->
                                                                    false
                                                                    | p2 :: l6 ->
                                                                    (match l6 with
                                                                    | [] ->
                                                                    negb
                                                                    (match 
                                                                    ident_name_sym
                                                                    p2 with
                                                                    | Some s ->
                                                                    (match s with
                                                                    | [] ->
                                                                    false
                                                                    | a::s0 ->
                                                                    (* If this appears, you're using Ascii internals. Please don't *)
 (fun f c ->
  let n = Char.code c in
  let h i = (n land (1 lsl i)) <> 0 in
  f (h 0) (h 1) (h 2) (h 3) (h 4) (h 5) (h 6) (h 7))
                                                                    (fun b b0 b1 b2 b3 b4 b5 b6 ->
                                                                    if b
                                                                    then false
                                                                    else 
                                                                    if b0
                                                                    then false
                                                                    else 
                                                                    if b1
                                                                    then false
                                                                    else 
                                                                    if b2
                                                                    then false
                                                                    else 
                                                                    if b3
                                                                    then 
                                                                    if b4
                                                                    then 
                                                                    if b5
                                                                    then 
                                                                    if b6
                                                                    then false
                                                                    else 
                                                                    (match s0 with
                                                                    | [] ->
                                                                    false
                                                                    | a0::s1 ->
                                                                    (* If this appears, you're using Ascii internals. Please don't *)
 (fun f c ->
  let n = Char.code c in
  let h i = (n land (1 lsl i)) <> 0 in
  f (h 0) (h 1) (h 2) (h 3) (h 4) (h 5) (h 6) (h 7))
                                                                    (fun b7 b8 b9 b10 b11 b12 b13 b14 ->
                                                                    if b7
                                                                    then false
                                                                    else 
                                                                    if b8
                                                                    then 
                                                                    if b9
                                                                    then false
                                                                    else 
                                                                    if b10
                                                                    then false
                                                                    else 
                                                                    if b11
                                                                    then 
                                                                    if b12
                                                                    then 
                                                                    if b13
                                                                    then 
                                                                    if b14
                                                                    then false
                                                                    else 
                                                                    (match s1 with
                                                                    | [] ->
                                                                    false
                                                                    | a1::s2 ->
                                                                    (* If this appears, you're using Ascii internals. Please don't *)
 (fun f c ->
  let n = Char.code c in
  let h i = (n land (1 lsl i)) <> 0 in
  f (h 0) (h 1) (h 2) (h 3) (h 4) (h 5) (h 6) (h 7))
                                                                    (fun b15 b16 b17 b18 b19 b20 b21 b22 ->
                                                                    if b15
                                                                    then 
                                                                    if b16
                                                                    then 
                                                                    if b17
                                                                    then 
                                                                    if b18
                                                                    then 
                                                                    if b19
                                                                    then false
                                                                    else 
                                                                    if b20
                                                                    then 
                                                                    if b21
                                                                    then 
                                                                    if b22
                                                                    then false
                                                                    else 
                                                                    (match s2 with
                                                                    | [] ->
                                                                    false
                                                                    | a2::s3 ->
                                                                    (* If this appears, you're using Ascii internals. Please don't *)
 (fun f c ->
  let n = Char.code c in
  let h i = (n land (1 lsl i)) <> 0 in
  f (h 0) (h 1) (h 2) (h 3) (h 4) (h 5) (h 6) (h 7))
                                                                    (fun b23 b24 b25 b26 b27 b28 b29 b30 ->
                                                                    if b23
                                                                    then false
                                                                    else 
                                                                    if b24
                                                                    then false
                                                                    else 
                                                                    if b25
                                                                    then 
                                                                    if b26
                                                                    then false
                                                                    else 
                                                                    if b27
                                                                    then 
                                                                    if b28
                                                                    then 
                                                                    if b29
                                                                    then 
                                                                    if b30
                                                                    then false
                                                                    else 
                                                                    (match s3 with
                                                                    | [] ->
                                                                    false
                                                                    | a3::s4 ->
                                                                    (* If this appears, you're using Ascii internals. Please don't *)
 (fun f c ->
  let n = Char.code c in
  let h i = (n land (1 lsl i)) <> 0 in
  f (h 0) (h 1) (h 2) (h 3) (h 4) (h 5) (h 6) (h 7))
                                                                    (fun b31 b32 b33 b34 b35 b36 b37 b38 ->
                                                                    if b31
                                                                    then 
                                                                    if b32
                                                                    then 
                                                                    if b33
                                                                    then 
                                                                    if b34
                                                                    then 
                                                                    if b35
                                                                    then false
                                                                    else 
                                                                    if b36
                                                                    then 
                                                                    if b37
                                                                    then 
                                                                    if b38
                                                                    then false
                                                                    else 
                                                                    (match s4 with
                                                                    | [] ->
                                                                    false
                                                                    | a4::s5 ->
                                                                    (* If this appears, you're using Ascii internals. Please don't *)
 (fun f c ->
  let n = Char.code c in
  let h i = (n land (1 lsl i)) <> 0 in
  f (h 0) (h 1) (h 2) (h 3) (h 4) (h 5) (h 6) (h 7))
                                                                    (fun b39 b40 b41 b42 b43 b44 b45 b46 ->
                                                                    if b39
                                                                    then false
                                                                    else 
                                                                    if b40
                                                                    then false
                                                                    else 
                                                                    if b41
                                                                    then 
                                                                    if b42
                                                                    then false
                                                                    else 
                                                                    if b43
                                                                    then 
                                                                    if b44
                                                                    then 
                                                                    if b45
                                                                    then 
                                                                    if b46
                                                                    then false
                                                                    else 
                                                                    (match s5 with
                                                                    | [] ->
                                                                    false
                                                                    | a5::s6 ->
                                                                    (* If this appears, you're using Ascii internals. Please don't *)
 (fun f c ->
  let n = Char.code c in
  let h i = (n land (1 lsl i)) <> 0 in
  f (h 0) (h 1) (h 2) (h 3) (h 4) (h 5) (h 6) (h 7))
                                                                    (fun b47 b48 b49 b50 b51 b52 b53 b54 ->
                                                                    if b47
                                                                    then 
                                                                    if b48
                                                                    then false
                                                                    else 
                                                                    if b49
                                                                    then false
                                                                    else 
                                                                    if b50
                                                                    then 
                                                                    if b51
                                                                    then 
                                                                    if b52
                                                                    then 
                                                                    if b53
                                                                    then 
                                                                    if b54
                                                                    then false
                                                                    else 
                                                                    (match s6 with
                                                                    | [] ->
                                                                    false
                                                                    | a6::s7 ->
                                                                    (* If this appears, you're using Ascii internals. Please don't *)
 (fun f c ->
  let n = Char.code c in
  let h i = (n land (1 lsl i)) <> 0 in
  f (h 0) (h 1) (h 2) (h 3) (h 4) (h 5) (h 6) (h 7))
                                                                    (fun b55 b56 b57 b58 b59 b60 b61 b62 ->
                                                                    if b55
                                                                    then false
                                                                    else 
                                                                    if b56
                                                                    then false
                                                                    else 
                                                                    if b57
                                                                    then false
                                                                    else 
                                                                    if b58
                                                                    then false
                                                                    else 
                                                                    if b59
                                                                    then 
                                                                    if b60
                                                                    then 
                                                                    if b61
                                                                    then 
                                                                    if b62
                                                                    then false
                                                                    else 
                                                                    (match s7 with
                                                                    | [] ->
                                                                    false
                                                                    | a7::s8 ->
                                                                    (* If this appears, you're using Ascii internals. Please don't *)
 (fun f c ->
  let n = Char.code c in
  let h i = (n land (1 lsl i)) <> 0 in
  f (h 0) (h 1) (h 2) (h 3) (h 4) (h 5) (h 6) (h 7))
                                                                    (fun b63 b64 b65 b66 b67 b68 b69 b70 ->
                                                                    if b63
                                                                    then 
                                                                    if b64
                                                                    then false
                                                                    else 
                                                                    if b65
                                                                    then 
                                                                    if b66
                                                                    then false
                                                                    else 
                                                                    if b67
                                                                    then false
                                                                    else 
                                                                    if b68
                                                                    then 
                                                                    if b69
                                                                    then 
                                                                    if b70
                                                                    then false
                                                                    else 
                                                                    (match s8 with
                                                                    | [] ->
                                                                    true
                                                                    | _::_ ->
                                                                    false)
                                                                    else false
                                                                    else false
                                                                    else false
                                                                    else false)
                                                                    a7)
                                                                    else false
                                                                    else false
                                                                    else false)
                                                                    a6)
                                                                    else false
                                                                    else false
                                                                    else false
                                                                    else false
                                                                    else false)
                                                                    a5)
                                                                    else false
                                                                    else false
                                                                    else false
                                                                    else false)
                                                                    a4)
                                                                    else false
                                                                    else false
                                                                    else false
                                                                    else false
                                                                    else false
                                                                    else false)
                                                                    a3)
                                                                    else false
                                                                    else false
                                                                    else false
                                                                    else false)
                                                                    a2)
                                                                    else false
                                                                    else false
                                                                    else false
                                                                    else false
                                                                    else false
                                                                    else false)
                                                                    a1)
                                                                    else false
                                                                    else false
                                                                    else false
                                                                    else false)
                                                                    a0)
                                                                    else false
                                                                    else false
                                                                    else false)
                                                                    a)
                                                                    | None ->
                                                                    false)
                                                                    | _ :: _ ->
                                                                    false)))
                                                                 | _ -> false)
                                                              | _ -> false)
                                                 in
                                                 if ok
                                                 then (((span_of prop), m),
                                                        []) :: []
                                                 else []
                                            else if (||)
                                                      (eqb1 m
                                                        ('c'::('a'::('l'::('l'::[])))))
                                                      (eqb1 m
                                                        ('a'::('p'::('p'::('l'::('y'::[]))))))
                                                 then let Node (t2, cs1) = obj
                                                      in
                                                      (match t2 with
                                                       | K (k1, _, _) ->
                                                         (match k1 with
                                                          | KMember ->
                                                            (match cs1 with
                                                             | [] -> []
                                                             | _ :: l5 ->
                                                               (match l5 with
                                                                | [] -> []
                                                                | p2 :: l6 ->
                                                                  (match l6 with
                                                                   | [] ->
                                                                    (match 
                                                                    ident_name_sym
                                                                    p2 with
                                                                    | Some m2 ->
                                                                    if 
                                                                    mem_str
                                                                    m2
                                                                    c.sc_methods
                                                                    then 
                                                                    (match args with
                                                                    | [] -> []
                                                                    | this :: rest ->
                                                                    if 
                                                                    arg_is_spread
                                                                    this
                                                                    then 
                                                                    (((span_of
                                                                    p2), m2),
                                                                    []) :: []
                                                                    else 
                                                                    let this_lit =
                                                                    match 
                                                                    arg_expr
                                                                    this with
                                                                    | Some t3 ->
                                                                    is_lit t3
                                                                    | None ->
                                                                    false
                                                                    in
                                                                    if 
                                                                    (&&)
                                                                    this_lit
                                                                    ((||)
                                                                    (negb
                                                                    (mem_str
                                                                    m2
                                                                    c.sc_lit_callers))
                                                                    (forallb
                                                                    arg_lit_like
                                                                    rest))
                                                                    then []
                                                                    else 
                                                                    if 
                                                                    eqb1 m
                                                                    ('a'::('p'::('p'::('l'::('y'::[])))))
                                                                    then 
                                                                    (match rest with
                                                                    | [] ->
                                                                    (((span_of
                                                                    p2), m2),
                                                                    ('a'::('p'::('p'::('l'::('y'::('-'::('n'::('o'::('n'::('a'::('r'::('r'::('a'::('y'::('-'::('a'::('r'::('g'::('s'::[])))))))))))))))))))) :: []
                                                                    | second :: _ ->
                                                                    (match 
                                                                    arg_expr
                                                                    second with
                                                                    | Some n3 ->
                                                                    let Node (
                                                                    t3, cs2) =
                                                                    n3
                                                                    in
                                                                    (
                                                                    match t3 with
                                                                    | K (
                                                                    k2, _, _) ->
                                                                    (match k2 with
                                                                    | KArray ->
                                                                    (match cs2 with
                                                                    | [] ->
                                                                    if 
                                                                    arg_is_spread
                                                                    second
                                                                    then 
                                                                    (((span_of
                                                                    p2), m2),
                                                                    []) :: []
                                                                    else 
                                                                    (((span_of
                                                                    p2), m2),
                                                                    ('a'::('p'::('p'::('l'::('y'::('-'::('n'::('o'::('n'::('a'::('r'::('r'::('a'::('y'::('-'::('a'::('r'::('g'::('s'::[])))))))))))))))))))) :: []
                                                                    | n4 :: l7 ->
                                                                    let Node (
                                                                    t4, elems) =
                                                                    n4
                                                                    in
                                                                    (
                                                                    match t4 with
                                                                    | Lst ->
                                                                    (match l7 with
                                                                    | [] ->
                                                                    if 
                                                                    (&&)
                                                                    this_lit
                                                                    (forallb
                                                                    (fun el ->
                                                                    let Node (
                                                                    t5, _) =
                                                                    el
                                                                    in
                                                                    (
                                                                    match t5 with
                                                                    | Nul ->
                                                                    false
                                                                    | _ ->
                                                                    arg_lit_like
                                                                    el))
                                                                    (skipn (S
                                                                    O) elems))
                                                                    then []
                                                                    else 
                                                                    (((span_of
                                                                    p2), m2),
                                                                    []) :: []
                                                                    | _ :: _ ->
                                                                    if 
                                                                    arg_is_spread
                                                                    second
                                                                    then 
                                                                    (((span_of
                                                                    p2), m2),
                                                                    []) :: []
                                                                    else 
                                                                    (((span_of
                                                                    p2), m2),
                                                                    ('a'::('p'::('p'::('l'::('y'::('-'::('n'::('o'::('n'::('a'::('r'::('r'::('a'::('y'::('-'::('a'::('r'::('g'::('s'::[])))))))))))))))))))) :: [])
                                                                    | _ ->
                                                                    if 
                                                                    arg_is_spread
                                                                    second
                                                                    then 
                                                                    (((span_of
                                                                    p2), m2),
                                                                    []) :: []
                                                                    else 
                                                                    (((span_of
                                                                    p2), m2),
                                                                    ('a'::('p'::('p'::('l'::('y'::('-'::('n'::('o'::('n'::('a'::('r'::('r'::('a'::('y'::('-'::('a'::('r'::('g'::('s'::[])))))))))))))))))))) :: []))
                                                                    | _ ->
                                                                    if 
                                                                    arg_is_spread
                                                                    second
                                                                    then 
                                                                    (((span_of
                                                                    p2), m2),
                                                                    []) :: []
                                                                    else 
                                                                    (((span_of
                                                                    p2), m2),
                                                                    ('a'::('p'::('p'::('l'::('y'::('-'::('n'::('o'::('n'::('a'::('r'::('r'::('a'::('y'::('-'::('a'::('r'::('g'::('s'::[])))))))))))))))))))) :: [])
                                                                    | _ ->
                                                                    if 
                                                                    arg_is_spread
                                                                    second
                                                                    then 
                                                                    (((span_of
                                                                    p2), m2),
                                                                    []) :: []
                                                                    else 
                                                                    (((span_of
                                                                    p2), m2),
                                                                    ('a'::('p'::('p'::('l'::('y'::('-'::('n'::('o'::('n'::('a'::('r'::('r'::('a'::('y'::('-'::('a'::('r'::('g'::('s'::[])))))))))))))))))))) :: [])
                                                                    | None ->
                                                                    if 
                                                                    arg_is_spread
                                                                    second
                                                                    then 
                                                                    (((span_of
                                                                    p2), m2),
                                                                    []) :: []
                                                                    else 
                                                                    (((span_of
                                                                    p2), m2),
                                                                    ('a'::('p'::('p'::('l'::('y'::('-'::('n'::('o'::('n'::('a'::('r'::('r'::('a'::('y'::('-'::('a'::('r'::('g'::('s'::[])))))))))))))))))))) :: []))
                                                                    else 
                                                                    (((span_of
                                                                    p2), m2),
                                                                    []) :: [])
                                                                    else []
                                                                    | None ->
                                                                    [])
                                                                   | _ :: _ ->
                                                                    [])))
                                                          | _ -> [])
                                                       | _ -> [])
                                                 else []
                                          | None -> [])
                                       | _ :: _ -> []))
                                 | _ -> []))
                           | _ :: _ -> [])))
                  | _ -> [])
               | _ -> [])))
      | KOptChain ->
        (match cs with
         | [] -> []
         | n1 :: l ->
           let Node (t0, cs0) = n1 in
           (match t0 with
            | Bln b ->
              if b
              then []
              else (match cs0 with
                    | [] ->
                      (match l with
                       | [] -> []
                       | n2 :: l0 ->
                         let Node (t1, cs1) = n2 in
                         (match t1 with
                          | K (k0, _, _) ->
                            (match k0 with
                             | KCall ->
                               (match cs1 with
                                | [] -> []
                                | _ :: l1 ->
                                  (match l1 with
                                   | [] -> []
                                   | n3 :: l2 ->
                                     let Node (t2, cs2) = n3 in
                                     (match t2 with
                                      | K (k1, _, _) ->
                                        (match k1 with
                                         | KOptChain ->
                                           (match cs2 with
                                            | [] -> []
                                            | n4 :: l3 ->
                                              let Node (t3, cs3) = n4 in
                                              (match t3 with
                                               | Bln b0 ->
                                                 if b0
                                                 then (match cs3 with
                                                       | [] ->
                                                         (match l3 with
                                                          | [] -> []
                                                          | n5 :: l4 ->
                                                            let Node (
                                                              t4, cs4) = n5
                                                            in
                                                            (match t4 with
                                                             | K (k2, _, _) ->
                                                               (match k2 with
                                                                | KMember ->
                                                                  (match cs4 with
                                                                   | [] -> []
                                                                   | obj :: l5 ->
                                                                    (match l5 with
                                                                    | [] -> []
                                                                    | prop :: l6 ->
                                                                    (match l6 with
                                                                    | [] ->
                                                                    (match l4 with
                                                                    | [] ->
                                                                    (match l2 with
                                                                    | [] -> []
                                                                    | _ :: l7 ->
                                                                    (match l7 with
                                                                    | [] -> []
                                                                    | _ :: l8 ->
                                                                    (match l8 with
                                                                    | [] ->
                                                                    (match l0 with
                                                                    | [] ->
                                                                    (match 
                                                                    ident_name_sym
                                                                    prop with
                                                                    | Some m ->
                                                                    if 
                                                                    (&&)
                                                                    (mem_str
                                                                    m
                                                                    c.sc_methods)
                                                                    (negb
                                                                    (is_lit
                                                                    obj))
                                                                    then 
                                                                    (((span_of
                                                                    prop),
                                                                    m),
                                                                    []) :: []
                                                                    else []
                                                                    | None ->
                                                                    [])
                                                                    | _ :: _ ->
                                                                    [])
                                                                    | _ :: _ ->
                                                                    [])))
                                                                    | _ :: _ ->
                                                                    [])
                                                                    | _ :: _ ->
                                                                    [])))
                                                                | _ -> [])
                                                             | _ -> []))
                                                       | _ :: _ -> [])
                                                 else []
                                               | _ -> []))
                                         | _ -> [])
                                      | _ -> [])))
                             | _ -> [])
                          | _ -> []))
                    | _ :: _ -> [])
            | _ -> []))
      | _ -> [])
   | _ -> [])

(** val with_block : wctx -> wctx **)

let with_block w =
  { in_block = true; excluded = w.excluded; cls = w.cls }

(** val with_excluded : wctx -> wctx **)

let with_excluded w =
  { in_block = w.in_block; excluded = true; cls = w.cls }

(** val sites_walk : site_cfg -> wctx -> node -> site list **)

let rec sites_walk c w n0 =
  let here0 =
    if w.excluded
    then []
    else if (||) w.in_block (negb (eqb1 w.cls []))
         then map (fun x ->
                let (y, cl) = x in
                let (k, what) = y in
                { s_key = k; s_what = what; s_class =
                (if eqb1 cl [] then w.cls else cl) }) (site_here c n0)
         else []
  in
  let go = fun w' ->
    let rec go = function
    | [] -> []
    | x :: l' -> app (sites_walk c w' x) (go l')
    in go
  in
  app here0
    (let Node (t, cs) = n0 in
     (match t with
      | K (k, _, _) ->
        (match k with
         | KBlock -> go (with_block w) cs
         | KTpl ->
           (match cs with
            | [] -> go w cs
            | n1 :: l ->
              let Node (t0, es) = n1 in
              (match t0 with
               | Lst ->
                 (match l with
                  | [] -> go w cs
                  | _ :: l0 ->
                    (match l0 with
                     | [] ->
                       if (&&) c.sc_tpl (tpl_has_lit es)
                       then go (with_excluded w) es
                       else go w es
                     | _ :: _ -> go w cs))
               | _ -> go w cs))
         | KTaggedTpl ->
           (match cs with
            | [] -> go w cs
            | _ :: l ->
              (match l with
               | [] -> go w cs
               | tg :: l0 ->
                 (match l0 with
                  | [] -> go w cs
                  | _ :: l1 ->
                    (match l1 with
                     | [] -> go w cs
                     | n1 :: l2 ->
                       let Node (t0, cs0) = n1 in
                       (match t0 with
                        | K (k0, _, _) ->
                          (match k0 with
                           | KTpl ->
                             (match cs0 with
                              | [] -> go w cs
                              | n2 :: l3 ->
                                let Node (t1, es) = n2 in
                                (match t1 with
                                 | Lst ->
                                   (match l3 with
                                    | [] -> go w cs
                                    | _ :: l4 ->
                                      (match l4 with
                                       | [] ->
                                         (match l2 with
                                          | [] ->
                                            app (sites_walk c w tg) (go w es)
                                          | _ :: _ -> go w cs)
                                       | _ :: _ -> go w cs))
                                 | _ -> go w cs))
                           | _ -> go w cs)
                        | _ -> go w cs)))))
         | KOptChain ->
           (match cs with
            | [] -> go w cs
            | n1 :: l ->
              let Node (t0, cs0) = n1 in
              (match t0 with
               | Bln b ->
                 if b
                 then (match cs0 with
                       | [] ->
                         (match l with
                          | [] -> go w cs
                          | n2 :: l0 ->
                            let Node (t1, ccs) = n2 in
                            (match t1 with
                             | K (k0, _, _) ->
                               (match k0 with
                                | KCall ->
                                  (match l0 with
                                   | [] -> go w ccs
                                   | _ :: _ -> go w cs)
                                | _ -> go w cs)
                             | _ -> go w cs))
                       | _ :: _ -> go w cs)
                 else go w cs
               | _ -> go w cs))
         | KUnary ->
           (match cs with
            | [] -> go w cs
            | n1 :: cs0 ->
              let Node (t0, cs1) = n1 in
              (match t0 with
               | Str s ->
                 (match s with
                  | [] -> go w cs
                  | a::s0 ->
                    (* If this appears, you're using Ascii internals. Please don't *)
 (fun f c ->
  let n = Char.code c in
  let h i = (n land (1 lsl i)) <> 0 in
  f (h 0) (h 1) (h 2) (h 3) (h 4) (h 5) (h 6) (h 7))
                      (fun b b0 b1 b2 b3 b4 b5 b6 ->
                      if b
                      then go w cs
                      else if b0
                           then go w cs
                           else if b1
                                then if b2
                                     then go w cs
                                     else if b3
                                          then go w cs
                                          else if b4
                                               then if b5
                                                    then if b6
                                                         then go w cs
                                                         else (match s0 with
                                                               | [] -> go w cs
                                                               | a0::s1 ->
                                                                 (* If this appears, you're using Ascii internals. Please don't *)
 (fun f c ->
  let n = Char.code c in
  let h i = (n land (1 lsl i)) <> 0 in
  f (h 0) (h 1) (h 2) (h 3) (h 4) (h 5) (h 6) (h 7))
                                                                   (fun b7 b8 b9 b10 b11 b12 b13 b14 ->
                                                                   if b7
                                                                   then 
                                                                    if b8
                                                                    then 
                                                                    go w cs
                                                                    else 
                                                                    if b9
                                                                    then 
                                                                    if b10
                                                                    then 
                                                                    go w cs
                                                                    else 
                                                                    if b11
                                                                    then 
                                                                    go w cs
                                                                    else 
                                                                    if b12
                                                                    then 
                                                                    if b13
                                                                    then 
                                                                    if b14
                                                                    then 
                                                                    go w cs
                                                                    else 
                                                                    (match s1 with
                                                                    | [] ->
                                                                    go w cs
                                                                    | a1::s2 ->
                                                                    (* If this appears, you're using Ascii internals. Please don't *)
 (fun f c ->
  let n = Char.code c in
  let h i = (n land (1 lsl i)) <> 0 in
  f (h 0) (h 1) (h 2) (h 3) (h 4) (h 5) (h 6) (h 7))
                                                                    (fun b15 b16 b17 b18 b19 b20 b21 b22 ->
                                                                    if b15
                                                                    then 
                                                                    go w cs
                                                                    else 
                                                                    if b16
                                                                    then 
                                                                    go w cs
                                                                    else 
                                                                    if b17
                                                                    then 
                                                                    if b18
                                                                    then 
                                                                    if b19
                                                                    then 
                                                                    go w cs
                                                                    else 
                                                                    if b20
                                                                    then 
                                                                    if b21
                                                                    then 
                                                                    if b22
                                                                    then 
                                                                    go w cs
                                                                    else 
                                                                    (match s2 with
                                                                    | [] ->
                                                                    go w cs
                                                                    | a2::s3 ->
                                                                    (* If this appears, you're using Ascii internals. Please don't *)
 (fun f c ->
  let n = Char.code c in
  let h i = (n land (1 lsl i)) <> 0 in
  f (h 0) (h 1) (h 2) (h 3) (h 4) (h 5) (h 6) (h 7))
                                                                    (fun b23 b24 b25 b26 b27 b28 b29 b30 ->
                                                                    if b23
                                                                    then 
                                                                    if b24
                                                                    then 
                                                                    go w cs
                                                                    else 
                                                                    if b25
                                                                    then 
                                                                    if b26
                                                                    then 
                                                                    go w cs
                                                                    else 
                                                                    if b27
                                                                    then 
                                                                    go w cs
                                                                    else 
                                                                    if b28
                                                                    then 
                                                                    if b29
                                                                    then 
                                                                    if b30
                                                                    then 
                                                                    go w cs
                                                                    else 
                                                                    (match s3 with
                                                                    | [] ->
                                                                    go w cs
                                                                    | a3::s4 ->
                                                                    (* If this appears, you're using Ascii internals. Please don't *)
 (fun f c ->
  let n = Char.code c in
  let h i = (n land (1 lsl i)) <> 0 in
  f (h 0) (h 1) (h 2) (h 3) (h 4) (h 5) (h 6) (h 7))
                                                                    (fun b31 b32 b33 b34 b35 b36 b37 b38 ->
                                                                    if b31
                                                                    then 
                                                                    go w cs
                                                                    else 
                                                                    if b32
                                                                    then 
                                                                    go w cs
                                                                    else 
                                                                    if b33
                                                                    then 
                                                                    if b34
                                                                    then 
                                                                    go w cs
                                                                    else 
                                                                    if b35
                                                                    then 
                                                                    if b36
                                                                    then 
                                                                    if b37
                                                                    then 
                                                                    if b38
                                                                    then 
                                                                    go w cs
                                                                    else 
                                                                    (match s4 with
                                                                    | [] ->
                                                                    go w cs
                                                                    | a4::s5 ->
                                                                    (* If this appears, you're using Ascii internals. Please don't *)
 (fun f c ->
  let n = Char.code c in
  let h i = (n land (1 lsl i)) <> 0 in
  f (h 0) (h 1) (h 2) (h 3) (h 4) (h 5) (h 6) (h 7))
                                                                    (fun b39 b40 b41 b42 b43 b44 b45 b46 ->
                                                                    if b39
                                                                    then 
                                                                    if b40
                                                                    then 
                                                                    go w cs
                                                                    else 
                                                                    if b41
                                                                    then 
                                                                    if b42
                                                                    then 
                                                                    go w cs
                                                                    else 
                                                                    if b43
                                                                    then 
                                                                    go w cs
                                                                    else 
                                                                    if b44
                                                                    then 
                                                                    if b45
                                                                    then 
                                                                    if b46
                                                                    then 
                                                                    go w cs
                                                                    else 
                                                                    (match s5 with
                                                                    | [] ->
                                                                    (match cs1 with
                                                                    | [] ->
                                                                    go
                                                                    (with_excluded
                                                                    w) cs0
                                                                    | _ :: _ ->
                                                                    go w cs)
                                                                    | _::_ ->
                                                                    go w cs)
                                                                    else 
                                                                    go w cs
                                                                    else 
                                                                    go w cs
                                                                    else 
                                                                    go w cs
                                                                    else 
                                                                    go w cs)
                                                                    a4)
                                                                    else 
                                                                    go w cs
                                                                    else 
                                                                    go w cs
                                                                    else 
                                                                    go w cs
                                                                    else 
                                                                    go w cs)
                                                                    a3)
                                                                    else 
                                                                    go w cs
                                                                    else 
                                                                    go w cs
                                                                    else 
                                                                    go w cs
                                                                    else 
                                                                    go w cs)
                                                                    a2)
                                                                    else 
                                                                    go w cs
                                                                    else 
                                                                    go w cs
                                                                    else 
                                                                    go w cs
                                                                    else 
                                                                    go w cs)
                                                                    a1)
                                                                    else 
                                                                    go w cs
                                                                    else 
                                                                    go w cs
                                                                    else 
                                                                    go w cs
                                                                   else 
                                                                    go w cs)
                                                                   a0)
                                                    else go w cs
                                               else go w cs
                                else go w cs)
                      a)
               | _ -> go w cs))
         | KArrow ->
           (match cs with
            | [] -> go w cs
            | _ :: l ->
              (match l with
               | [] -> go w cs
               | params :: l0 ->
                 (match l0 with
                  | [] -> go w cs
                  | body :: l1 ->
                    (match l1 with
                     | [] -> go w cs
                     | _ :: l2 ->
                       (match l2 with
                        | [] -> go w cs
                        | _ :: l3 ->
                          (match l3 with
                           | [] -> go w cs
                           | _ :: l4 ->
                             (match l4 with
                              | [] -> go w cs
                              | _ :: l5 ->
                                (match l5 with
                                 | [] ->
                                   app
                                     (sites_walk c (with_excluded w) params)
                                     (sites_walk c
                                       (if is_kind KBlock body
                                        then w
                                        else with_block w) body)
                                 | _ :: _ -> go w cs))))))))
         | _ -> go w cs)
      | _ -> go w cs))

(** val required_sites : site_cfg -> node -> site list **)

let required_sites c prog =
  sites_walk c { in_block = false; excluded = false; cls = [] } prog

(** val key_of_operation : node -> node list -> sp option **)

let key_of_operation op env =
  let Node (t, cs) = op in
  (match t with
   | K (k, lo, hi) ->
     (match k with
      | KBin -> Some (lo, hi)
      | KTpl -> Some (lo, hi)
      | KCall ->
        (match cs with
         | [] -> None
         | _ :: l ->
           (match l with
            | [] -> None
            | n0 :: l0 ->
              let Node (t0, cs0) = n0 in
              (match t0 with
               | K (k0, _, _) ->
                 (match k0 with
                  | KMember ->
                    (match cs0 with
                     | [] -> None
                     | obj :: l1 ->
                       (match l1 with
                        | [] -> None
                        | _ :: l2 ->
                          (match l2 with
                           | [] ->
                             (match l0 with
                              | [] -> None
                              | _ :: l3 ->
                                (match l3 with
                                 | [] -> None
                                 | _ :: l4 ->
                                   (match l4 with
                                    | [] ->
                                      (match ident_sym obj with
                                       | Some tmp ->
                                         (match lookup_assign tmp env with
                                          | Some n1 ->
                                            let Node (t1, cs1) = n1 in
                                            (match t1 with
                                             | K (k1, _, _) ->
                                               (match k1 with
                                                | KMember ->
                                                  (match cs1 with
                                                   | [] -> None
                                                   | _ :: l5 ->
                                                     (match l5 with
                                                      | [] -> None
                                                      | prop :: l6 ->
                                                        (match l6 with
                                                         | [] ->
                                                           Some (span_of prop)
                                                         | _ :: _ -> None)))
                                                | _ -> None)
                                             | _ -> None)
                                          | None -> None)
                                       | None -> None)
                                    | _ :: _ -> None)))
                           | _ :: _ -> None)))
                  | _ -> None)
               | _ -> None)))
      | _ -> None)
   | _ -> None)

(** val hook_keys_aux : node list -> node -> sp list **)

let rec hook_keys_aux env = function
| Node (t, cs) ->
  app
    (match hook_call (Node (t, cs)) with
     | Some p ->
       let (_, args) = p in
       (match first_arg args with
        | Some op ->
          (match key_of_operation op env with
           | Some k -> k :: []
           | None -> [])
        | None -> [])
     | None -> [])
    (match t with
     | K (k, _, _) ->
       (match k with
        | KSeq ->
          (match cs with
           | [] ->
             let rec go = function
             | [] -> []
             | x :: l' -> app (hook_keys_aux env x) (go l')
             in go cs
           | n1 :: l ->
             let Node (t0, es) = n1 in
             (match t0 with
              | Lst ->
                (match l with
                 | [] ->
                   let rec go = function
                   | [] -> []
                   | x :: l' -> app (hook_keys_aux es x) (go l')
                   in go es
                 | _ :: _ ->
                   let rec go = function
                   | [] -> []
                   | x :: l' -> app (hook_keys_aux env x) (go l')
                   in go cs)
              | _ ->
                let rec go = function
                | [] -> []
                | x :: l' -> app (hook_keys_aux env x) (go l')
                in go cs))
        | _ ->
          let rec go = function
          | [] -> []
          | x :: l' -> app (hook_keys_aux env x) (go l')
          in go cs)
     | _ ->
       let rec go = function
       | [] -> []
       | x :: l' -> app (hook_keys_aux env x) (go l')
       in go cs)

(** val hook_keys : node -> sp list **)

let hook_keys out =
  hook_keys_aux [] out

(** val sp_eqb0 : sp -> sp -> bool **)

let sp_eqb0 a b =
  (&&) (N.eqb (fst a) (fst b)) (N.eqb (snd a) (snd b))

(** val missing_sites : site_cfg -> node -> node -> site list **)

let missing_sites c pin pout =
  let keys = hook_keys pout in
  filter (fun s -> negb (existsb (sp_eqb0 s.s_key) keys))
    (required_sites c pin)

(** val mem_str0 : char list -> char list list -> bool **)

let mem_str0 s l =
  existsb (eqb1 s) l

(** val reserved_ident : char list -> node -> (char list * bool) option **)

let reserved_ident vp n0 = match n0 with
| Node (t, _) ->
  (match t with
   | K (k, lo, hi) ->
     (match k with
      | KIdent ->
        (match ident_sym n0 with
         | Some s ->
           if prefix vp s then Some (s, (is_dummy (lo, hi))) else None
         | None -> None)
      | _ -> None)
   | _ -> None)

(** val let_names : char list -> node list -> char list list **)

let let_names vp stmts =
  match after_directives stmts with
  | [] -> []
  | s :: _ ->
    let Node (t, cs) = s in
    (match t with
     | K (k, _, _) ->
       (match k with
        | KVarDecl ->
          (match cs with
           | [] -> []
           | _ :: l0 ->
             (match l0 with
              | [] -> []
              | _ :: l1 ->
                (match l1 with
                 | [] -> []
                 | _ :: l2 ->
                   (match l2 with
                    | [] -> []
                    | n2 :: l3 ->
                      let Node (t0, decls) = n2 in
                      (match t0 with
                       | Lst ->
                         (match l3 with
                          | [] ->
                            if is_injected_let vp s
                            then flat_map (fun d ->
                                   let Node (t1, cs0) = d in
                                   (match t1 with
                                    | K (k0, _, _) ->
                                      (match k0 with
                                       | KVarDeclarator ->
                                         (match cs0 with
                                          | [] -> []
                                          | id :: _ ->
                                            (match ident_sym id with
                                             | Some x -> x :: []
                                             | None -> []))
                                       | _ -> [])
                                    | _ -> [])) decls
                            else []
                          | _ :: _ -> [])
                       | _ -> [])))))
        | _ -> [])
     | _ -> [])

(** val has_dup : char list list -> bool **)

let rec has_dup = function
| [] -> false
| x :: rest -> (||) (mem_str0 x rest) (has_dup rest)

type hctx = { h_decl : char list list option; h_crossed : bool;
              h_assigned : char list list; h_live : char list list }

type issue = char list * char list

(** val hyg : char list -> hctx -> node -> issue list **)

let rec hyg vp h n0 =
  let kids = fun h' ->
    let rec go = function
    | [] -> []
    | c :: l' -> app (hyg vp h' c) (go l')
    in go
  in
  (match reserved_ident vp n0 with
   | Some p ->
     let (name, b) = p in
     if b
     then app
            (match h.h_decl with
             | Some d ->
               if mem_str0 name d
               then []
               else (('u'::('n'::('d'::('e'::('c'::('l'::('a'::('r'::('e'::('d'::[])))))))))),
                      name) :: []
             | None ->
               (('u'::('n'::('d'::('e'::('c'::('l'::('a'::('r'::('e'::('d'::[])))))))))),
                 name) :: [])
            (if h.h_crossed
             then (('c'::('r'::('o'::('s'::('s'::('e'::('d'::[]))))))),
                    name) :: []
             else [])
     else []
   | None ->
     let Node (t, cs) = n0 in
     (match t with
      | K (k, _, _) ->
        (match k with
         | KBlock ->
           (match cs with
            | [] -> kids h cs
            | _ :: l ->
              (match l with
               | [] -> kids h cs
               | n1 :: l0 ->
                 let Node (t0, stmts) = n1 in
                 (match t0 with
                  | Lst ->
                    (match l0 with
                     | [] ->
                       let d = let_names vp stmts in
                       app
                         (if has_dup d
                          then (('d'::('u'::('p'::('-'::('d'::('e'::('c'::('l'::[])))))))),
                                 []) :: []
                          else [])
                         (kids { h_decl = (Some d); h_crossed = false;
                           h_assigned = []; h_live = [] } stmts)
                     | _ :: _ -> kids h cs)
                  | _ -> kids h cs)))
         | KParen ->
           (match cs with
            | [] -> kids h cs
            | n1 :: l ->
              let Node (t0, cs0) = n1 in
              (match t0 with
               | K (k0, _, _) ->
                 (match k0 with
                  | KSeq ->
                    (match cs0 with
                     | [] -> kids h cs
                     | n2 :: l0 ->
                       let Node (t1, es) = n2 in
                       (match t1 with
                        | Lst ->
                          (match l0 with
                           | [] ->
                             (match l with
                              | [] ->
                                (match split_injected vp es with
                                 | Some p ->
                                   let (asg, _) = p in
                                   (match asg with
                                    | [] -> kids h es
                                    | _ :: _ ->
                                      let mine = map fst asg in
                                      app
                                        (if has_dup mine
                                         then (('d'::('u'::('p'::('-'::('a'::('s'::('s'::('i'::('g'::('n'::[])))))))))),
                                                []) :: []
                                         else [])
                                        (app
                                          (if existsb (fun x ->
                                                mem_str0 x h.h_live) mine
                                           then (('c'::('l'::('o'::('b'::('b'::('e'::('r'::[]))))))),
                                                  []) :: []
                                           else [])
                                          (let rec go l1 done0 =
                                             match l1 with
                                             | [] -> []
                                             | x :: l' ->
                                               let Node (t2, cs1) = x in
                                               (match t2 with
                                                | K (k1, _, _) ->
                                                  (match k1 with
                                                   | KAssign ->
                                                     (match cs1 with
                                                      | [] ->
                                                        (match l' with
                                                         | [] ->
                                                           hyg vp { h_decl =
                                                             h.h_decl;
                                                             h_crossed =
                                                             h.h_crossed;
                                                             h_assigned =
                                                             (app done0
                                                               h.h_assigned);
                                                             h_live =
                                                             (app mine
                                                               h.h_live) } x
                                                         | _ :: _ ->
                                                           app (hyg vp h x)
                                                             (go l' done0))
                                                      | _ :: l2 ->
                                                        (match l2 with
                                                         | [] ->
                                                           (match l' with
                                                            | [] ->
                                                              hyg vp
                                                                { h_decl =
                                                                h.h_decl;
                                                                h_crossed =
                                                                h.h_crossed;
                                                                h_assigned =
                                                                (app done0
                                                                  h.h_assigned);
                                                                h_live =
                                                                (app mine
                                                                  h.h_live) }
                                                                x
                                                            | _ :: _ ->
                                                              app
                                                                (hyg vp h x)
                                                                (go l' done0))
                                                         | lhs :: l3 ->
                                                           (match l3 with
                                                            | [] ->
                                                              (match l' with
                                                               | [] ->
                                                                 hyg vp
                                                                   { h_decl =
                                                                   h.h_decl;
                                                                   h_crossed =
                                                                   h.h_crossed;
                                                                   h_assigned =
                                                                   (app done0
                                                                    h.h_assigned);
                                                                   h_live =
                                                                   (app mine
                                                                    h.h_live) }
                                                                   x
                                                               | _ :: _ ->
                                                                 app
                                                                   (hyg vp h
                                                                    x)
                                                                   (go l'
                                                                    done0))
                                                            | rhs :: l4 ->
                                                              (match l4 with
                                                               | [] ->
                                                                 (match l' with
                                                                  | [] ->
                                                                    hyg vp
                                                                    { h_decl =
                                                                    h.h_decl;
                                                                    h_crossed =
                                                                    h.h_crossed;
                                                                    h_assigned =
                                                                    (app
                                                                    done0
                                                                    h.h_assigned);
                                                                    h_live =
                                                                    (app mine
                                                                    h.h_live) }
                                                                    x
                                                                  | _ :: _ ->
                                                                    app
                                                                    (hyg vp
                                                                    { h_decl =
                                                                    h.h_decl;
                                                                    h_crossed =
                                                                    h.h_crossed;
                                                                    h_assigned =
                                                                    (app
                                                                    done0
                                                                    h.h_assigned);
                                                                    h_live =
                                                                    (app mine
                                                                    h.h_live) }
                                                                    rhs)
                                                                    (match 
                                                                    ident_sym
                                                                    lhs with
                                                                    | Some t3 ->
                                                                    app
                                                                    (match h.h_decl with
                                                                    | Some d ->
                                                                    if 
                                                                    mem_str0
                                                                    t3 d
                                                                    then []
                                                                    else 
                                                                    (('u'::('n'::('d'::('e'::('c'::('l'::('a'::('r'::('e'::('d'::[])))))))))),
                                                                    t3) :: []
                                                                    | None ->
                                                                    (('u'::('n'::('d'::('e'::('c'::('l'::('a'::('r'::('e'::('d'::[])))))))))),
                                                                    t3) :: [])
                                                                    (app
                                                                    (if h.h_crossed
                                                                    then 
                                                                    (('c'::('r'::('o'::('s'::('s'::('e'::('d'::[]))))))),
                                                                    t3) :: []
                                                                    else [])
                                                                    (go l'
                                                                    (t3 :: done0)))
                                                                    | None ->
                                                                    go l'
                                                                    done0))
                                                               | _ :: _ ->
                                                                 (match l' with
                                                                  | [] ->
                                                                    hyg vp
                                                                    { h_decl =
                                                                    h.h_decl;
                                                                    h_crossed =
                                                                    h.h_crossed;
                                                                    h_assigned =
                                                                    (app
                                                                    done0
                                                                    h.h_assigned);
                                                                    h_live =
                                                                    (app mine
                                                                    h.h_live) }
                                                                    x
                                                                  | _ :: _ ->
                                                                    app
                                                                    (hyg vp h
                                                                    x)
                                                                    (go l'
                                                                    done0))))))
                                                   | _ ->
                                                     (match l' with
                                                      | [] ->
                                                        hyg vp { h_decl =
                                                          h.h_decl;
                                                          h_crossed =
                                                          h.h_crossed;
                                                          h_assigned =
                                                          (app done0
                                                            h.h_assigned);
                                                          h_live =
                                                          (app mine h.h_live) }
                                                          x
                                                      | _ :: _ ->
                                                        app (hyg vp h x)
                                                          (go l' done0)))
                                                | _ ->
                                                  (match l' with
                                                   | [] ->
                                                     hyg vp { h_decl =
                                                       h.h_decl; h_crossed =
                                                       h.h_crossed;
                                                       h_assigned =
                                                       (app done0
                                                         h.h_assigned);
                                                       h_live =
                                                       (app mine h.h_live) } x
                                                   | _ :: _ ->
                                                     app (hyg vp h x)
                                                       (go l' done0)))
                                           in go es [])))
                                 | None -> kids h es)
                              | _ :: _ -> kids h cs)
                           | _ :: _ -> kids h cs)
                        | _ -> kids h cs))
                  | _ -> kids h cs)
               | _ -> kids h cs))
         | KParam ->
           kids { h_decl = h.h_decl; h_crossed = true; h_assigned =
             h.h_assigned; h_live = h.h_live } cs
         | KClassProp ->
           (match cs with
            | [] -> kids h cs
            | key :: l ->
              (match l with
               | [] -> kids h cs
               | value0 :: l0 ->
                 (match l0 with
                  | [] -> kids h cs
                  | _ :: l1 ->
                    (match l1 with
                     | [] -> kids h cs
                     | n1 :: _ ->
                       let Node (t0, cs0) = n1 in
                       (match t0 with
                        | Bln b ->
                          if b
                          then kids h cs
                          else (match cs0 with
                                | [] ->
                                  app (hyg vp h key)
                                    (hyg vp { h_decl = h.h_decl; h_crossed =
                                      true; h_assigned = h.h_assigned;
                                      h_live = h.h_live } value0)
                                | _ :: _ -> kids h cs)
                        | _ -> kids h cs)))))
         | KPrivateProp ->
           (match cs with
            | [] -> kids h cs
            | _ :: l ->
              (match l with
               | [] -> kids h cs
               | _ :: l0 ->
                 (match l0 with
                  | [] -> kids h cs
                  | value0 :: l1 ->
                    (match l1 with
                     | [] -> kids h cs
                     | _ :: l2 ->
                       (match l2 with
                        | [] -> kids h cs
                        | n1 :: _ ->
                          let Node (t0, cs0) = n1 in
                          (match t0 with
                           | Bln b ->
                             if b
                             then kids h cs
                             else (match cs0 with
                                   | [] ->
                                     hyg vp { h_decl = h.h_decl; h_crossed =
                                       true; h_assigned = h.h_assigned;
                                       h_live = h.h_live } value0
                                   | _ :: _ -> kids h cs)
                           | _ -> kids h cs))))))
         | KSetterProp ->
           (match cs with
            | [] -> kids h cs
            | key :: l ->
              (match l with
               | [] -> kids h cs
               | _ :: l0 ->
                 (match l0 with
                  | [] -> kids h cs
                  | param :: l1 ->
                    (match l1 with
                     | [] -> kids h cs
                     | body :: l2 ->
                       (match l2 with
                        | [] ->
                          app (hyg vp h key)
                            (app
                              (hyg vp { h_decl = h.h_decl; h_crossed = true;
                                h_assigned = h.h_assigned; h_live =
                                h.h_live } param) (hyg vp h body))
                        | _ :: _ -> kids h cs)))))
         | _ -> kids h cs)
      | _ -> kids h cs))

(** val unassigned_reads :
    char list -> char list list -> node -> issue list **)

let rec unassigned_reads vp assigned n0 =
  let kids = fun a ->
    let rec go = function
    | [] -> []
    | c :: l' -> app (unassigned_reads vp a c) (go l')
    in go
  in
  (match reserved_ident vp n0 with
   | Some p ->
     let (name, b) = p in
     if b
     then if mem_str0 name assigned
          then []
          else (('u'::('n'::('a'::('s'::('s'::('i'::('g'::('n'::('e'::('d'::[])))))))))),
                 name) :: []
     else []
   | None ->
     let Node (t, cs) = n0 in
     (match t with
      | K (k, _, _) ->
        (match k with
         | KBlock -> kids [] cs
         | KVarDeclarator ->
           (match cs with
            | [] -> kids assigned cs
            | id :: rest ->
              (match reserved_ident vp id with
               | Some _ -> kids assigned rest
               | None -> kids assigned (id :: rest)))
         | KParen ->
           (match cs with
            | [] -> kids assigned cs
            | n1 :: l ->
              let Node (t0, cs0) = n1 in
              (match t0 with
               | K (k0, _, _) ->
                 (match k0 with
                  | KSeq ->
                    (match cs0 with
                     | [] -> kids assigned cs
                     | n2 :: l0 ->
                       let Node (t1, es) = n2 in
                       (match t1 with
                        | Lst ->
                          (match l0 with
                           | [] ->
                             (match l with
                              | [] ->
                                (match split_injected vp es with
                                 | Some p ->
                                   let (l1, _) = p in
                                   (match l1 with
                                    | [] -> kids assigned es
                                    | _ :: _ ->
                                      let rec go l2 a =
                                        match l2 with
                                        | [] -> []
                                        | x :: l' ->
                                          let Node (t2, cs1) = x in
                                          (match t2 with
                                           | K (k1, _, _) ->
                                             (match k1 with
                                              | KAssign ->
                                                (match cs1 with
                                                 | [] ->
                                                   (match l' with
                                                    | [] ->
                                                      unassigned_reads vp a x
                                                    | _ :: _ ->
                                                      app
                                                        (unassigned_reads vp
                                                          a x) (go l' a))
                                                 | _ :: l3 ->
                                                   (match l3 with
                                                    | [] ->
                                                      (match l' with
                                                       | [] ->
                                                         unassigned_reads vp
                                                           a x
                                                       | _ :: _ ->
                                                         app
                                                           (unassigned_reads
                                                             vp a x) 
                                                           (go l' a))
                                                    | lhs :: l4 ->
                                                      (match l4 with
                                                       | [] ->
                                                         (match l' with
                                                          | [] ->
                                                            unassigned_reads
                                                              vp a x
                                                          | _ :: _ ->
                                                            app
                                                              (unassigned_reads
                                                                vp a x)
                                                              (go l' a))
                                                       | rhs :: l5 ->
                                                         (match l5 with
                                                          | [] ->
                                                            (match l' with
                                                             | [] ->
                                                               unassigned_reads
                                                                 vp a x
                                                             | _ :: _ ->
                                                               app
                                                                 (unassigned_reads
                                                                   vp a rhs)
                                                                 (go l'
                                                                   (match 
                                                                    ident_sym
                                                                    lhs with
                                                                    | Some t3 ->
                                                                    t3 :: a
                                                                    | None ->
                                                                    a)))
                                                          | _ :: _ ->
                                                            (match l' with
                                                             | [] ->
                                                               unassigned_reads
                                                                 vp a x
                                                             | _ :: _ ->
                                                               app
                                                                 (unassigned_reads
                                                                   vp a x)
                                                                 (go l' a))))))
                                              | _ ->
                                                (match l' with
                                                 | [] ->
                                                   unassigned_reads vp a x
                                                 | _ :: _ ->
                                                   app
                                                     (unassigned_reads vp a x)
                                                     (go l' a)))
                                           | _ ->
                                             (match l' with
                                              | [] -> unassigned_reads vp a x
                                              | _ :: _ ->
                                                app (unassigned_reads vp a x)
                                                  (go l' a)))
                                      in go es assigned)
                                 | None -> kids assigned es)
                              | _ :: _ -> kids assigned cs)
                           | _ :: _ -> kids assigned cs)
                        | _ -> kids assigned cs))
                  | _ -> kids assigned cs)
               | _ -> kids assigned cs))
         | _ -> kids assigned cs)
      | _ -> kids assigned cs))

(** val user_idents : char list -> node -> char list list **)

let rec user_idents vp n0 =
  match reserved_ident vp n0 with
  | Some p -> let (name, b) = p in if b then [] else name :: []
  | None ->
    let Node (_, cs) = n0 in
    let rec go = function
    | [] -> []
    | c :: l' -> app (user_idents vp c) (go l')
    in go cs

(** val block_let_names : char list -> node -> char list list **)

let block_let_names vp = function
| Node (t, cs) ->
  (match t with
   | K (k, _, _) ->
     (match k with
      | KBlock ->
        (match cs with
         | [] -> []
         | _ :: l ->
           (match l with
            | [] -> []
            | n0 :: l0 ->
              let Node (t0, stmts) = n0 in
              (match t0 with
               | Lst ->
                 (match l0 with
                  | [] -> let_names vp stmts
                  | _ :: _ -> [])
               | _ -> [])))
      | _ -> [])
   | _ -> [])

(** val clash_between : char list -> node list -> node -> issue list **)

let clash_between vp scope body =
  let d = block_let_names vp body in
  (match d with
   | [] -> []
   | _ :: _ ->
     map (fun x ->
       (('u'::('s'::('e'::('r'::('-'::('c'::('l'::('a'::('s'::('h'::[])))))))))),
       x))
       (filter (fun x -> mem_str0 x d)
         (flat_map (user_idents vp) (body :: scope))))

(** val clashes : char list -> node -> issue list **)

let rec clashes vp n0 =
  app
    (let Node (t, cs) = n0 in
     (match t with
      | K (k, _, _) ->
        (match k with
         | KBlock -> clash_between vp [] n0
         | KArrow ->
           (match cs with
            | [] -> []
            | _ :: l ->
              (match l with
               | [] -> []
               | params :: l0 ->
                 (match l0 with
                  | [] -> []
                  | body :: l1 ->
                    (match l1 with
                     | [] -> []
                     | _ :: l2 ->
                       (match l2 with
                        | [] -> []
                        | _ :: l3 ->
                          (match l3 with
                           | [] -> []
                           | _ :: l4 ->
                             (match l4 with
                              | [] -> []
                              | _ :: l5 ->
                                (match l5 with
                                 | [] -> clash_between vp (params :: []) body
                                 | _ :: _ -> []))))))))
         | KFnDecl ->
           (match cs with
            | [] -> []
            | _ :: l ->
              (match l with
               | [] -> []
               | _ :: l0 ->
                 (match l0 with
                  | [] -> []
                  | params :: l1 ->
                    (match l1 with
                     | [] -> []
                     | _ :: l2 ->
                       (match l2 with
                        | [] -> []
                        | _ :: l3 ->
                          (match l3 with
                           | [] -> []
                           | body :: l4 ->
                             (match l4 with
                              | [] -> []
                              | _ :: l5 ->
                                (match l5 with
                                 | [] -> []
                                 | _ :: l6 ->
                                   (match l6 with
                                    | [] -> []
                                    | _ :: l7 ->
                                      (match l7 with
                                       | [] -> []
                                       | _ :: l8 ->
                                         (match l8 with
                                          | [] ->
                                            clash_between vp (params :: [])
                                              body
                                          | _ :: _ -> [])))))))))))
         | KFnExpr ->
           (match cs with
            | [] -> []
            | _ :: l ->
              (match l with
               | [] -> []
               | params :: l0 ->
                 (match l0 with
                  | [] -> []
                  | _ :: l1 ->
                    (match l1 with
                     | [] -> []
                     | _ :: l2 ->
                       (match l2 with
                        | [] -> []
                        | body :: l3 ->
                          (match l3 with
                           | [] -> []
                           | _ :: l4 ->
                             (match l4 with
                              | [] -> []
                              | _ :: l5 ->
                                (match l5 with
                                 | [] -> []
                                 | _ :: l6 ->
                                   (match l6 with
                                    | [] -> []
                                    | _ :: l7 ->
                                      (match l7 with
                                       | [] ->
                                         clash_between vp (params :: []) body
                                       | _ :: _ -> []))))))))))
         | KClassMethod ->
           (match cs with
            | [] -> []
            | _ :: l ->
              (match l with
               | [] -> []
               | n1 :: _ ->
                 let Node (t0, cs0) = n1 in
                 (match t0 with
                  | Obj ->
                    (match cs0 with
                     | [] -> []
                     | params :: l1 ->
                       (match l1 with
                        | [] -> []
                        | _ :: l2 ->
                          (match l2 with
                           | [] -> []
                           | _ :: l3 ->
                             (match l3 with
                              | [] -> []
                              | _ :: l4 ->
                                (match l4 with
                                 | [] -> []
                                 | body :: _ ->
                                   clash_between vp (params :: []) body)))))
                  | _ -> [])))
         | KPrivateMethod ->
           (match cs with
            | [] -> []
            | _ :: l ->
              (match l with
               | [] -> []
               | _ :: l0 ->
                 (match l0 with
                  | [] -> []
                  | n2 :: _ ->
                    let Node (t0, cs0) = n2 in
                    (match t0 with
                     | Obj ->
                       (match cs0 with
                        | [] -> []
                        | params :: l2 ->
                          (match l2 with
                           | [] -> []
                           | _ :: l3 ->
                             (match l3 with
                              | [] -> []
                              | _ :: l4 ->
                                (match l4 with
                                 | [] -> []
                                 | _ :: l5 ->
                                   (match l5 with
                                    | [] -> []
                                    | body :: _ ->
                                      clash_between vp (params :: []) body)))))
                     | _ -> []))))
         | KConstructor ->
           (match cs with
            | [] -> []
            | _ :: l ->
              (match l with
               | [] -> []
               | _ :: l0 ->
                 (match l0 with
                  | [] -> []
                  | params :: l1 ->
                    (match l1 with
                     | [] -> []
                     | body :: l2 ->
                       (match l2 with
                        | [] -> []
                        | _ :: l3 ->
                          (match l3 with
                           | [] -> []
                           | _ :: l4 ->
                             (match l4 with
                              | [] -> clash_between vp (params :: []) body
                              | _ :: _ -> [])))))))
         | KMethodProp ->
           (match cs with
            | [] -> []
            | _ :: l ->
              (match l with
               | [] -> []
               | params :: l0 ->
                 (match l0 with
                  | [] -> []
                  | _ :: l1 ->
                    (match l1 with
                     | [] -> []
                     | _ :: l2 ->
                       (match l2 with
                        | [] -> []
                        | body :: _ -> clash_between vp (params :: []) body)))))
         | KSetterProp ->
           (match cs with
            | [] -> []
            | _ :: l ->
              (match l with
               | [] -> []
               | _ :: l0 ->
                 (match l0 with
                  | [] -> []
                  | param :: l1 ->
                    (match l1 with
                     | [] -> []
                     | body :: l2 ->
                       (match l2 with
                        | [] -> clash_between vp (param :: []) body
                        | _ :: _ -> [])))))
         | KCatch ->
           (match cs with
            | [] -> []
            | param :: l ->
              (match l with
               | [] -> []
               | body :: l0 ->
                 (match l0 with
                  | [] -> clash_between vp (param :: []) body
                  | _ :: _ -> [])))
         | _ -> [])
      | _ -> []))
    (let Node (_, cs) = n0 in
     let rec go = function
     | [] -> []
     | c :: l' -> app (clashes vp c) (go l')
     in go cs)

(** val hygiene_issues : char list -> node -> issue list **)

let hygiene_issues vp out =
  app
    (hyg vp { h_decl = None; h_crossed = false; h_assigned = []; h_live =
      [] } out) (app (unassigned_reads vp [] out) (clashes vp out))

type expected =
| Exact of node
| OmittedSum of node
| Hole
| Unspread of node

(** val is_plus : node -> bool **)

let is_plus = function
| Node (t, cs) ->
  (match t with
   | K (k, _, _) ->
     (match k with
      | KBin ->
        (match cs with
         | [] -> false
         | n0 :: _ ->
           let Node (t0, cs0) = n0 in
           (match t0 with
            | Str s ->
              (match s with
               | [] -> false
               | a::s0 ->
                 (* If this appears, you're using Ascii internals. Please don't *)
 (fun f c ->
  let n = Char.code c in
  let h i = (n land (1 lsl i)) <> 0 in
  f (h 0) (h 1) (h 2) (h 3) (h 4) (h 5) (h 6) (h 7))
                   (fun b b0 b1 b2 b3 b4 b5 b6 ->
                   if b
                   then if b0
                        then if b1
                             then false
                             else if b2
                                  then if b3
                                       then false
                                       else if b4
                                            then if b5
                                                 then false
                                                 else if b6
                                                      then false
                                                      else (match s0 with
                                                            | [] ->
                                                              (match cs0 with
                                                               | [] -> true
                                                               | _ :: _ ->
                                                                 false)
                                                            | _::_ -> false)
                                            else false
                                  else false
                        else false
                   else false)
                   a)
            | _ -> false))
      | _ -> false)
   | _ -> false)

(** val expect_operand : node -> expected **)

let expect_operand arg = match arg with
| Node (t, cs) ->
  (match t with
   | Obj ->
     (match cs with
      | [] -> Exact arg
      | _ :: l ->
        (match l with
         | [] -> Exact arg
         | e :: l0 ->
           (match l0 with
            | [] -> if is_plus e then OmittedSum e else Exact arg
            | _ :: _ -> Exact arg)))
   | Nul -> Hole
   | _ -> Exact arg)

(** val expected_of_operation : node -> expected list option **)

let expected_of_operation = function
| Node (t, cs) ->
  (match t with
   | K (k, lo, hi) ->
     (match k with
      | KBin ->
        (match cs with
         | [] -> None
         | n0 :: l0 ->
           let Node (t0, cs0) = n0 in
           (match t0 with
            | Str s ->
              (match s with
               | [] -> None
               | a::s0 ->
                 (* If this appears, you're using Ascii internals. Please don't *)
 (fun f c ->
  let n = Char.code c in
  let h i = (n land (1 lsl i)) <> 0 in
  f (h 0) (h 1) (h 2) (h 3) (h 4) (h 5) (h 6) (h 7))
                   (fun b b0 b1 b2 b3 b4 b5 b6 ->
                   if b
                   then if b0
                        then if b1
                             then None
                             else if b2
                                  then if b3
                                       then None
                                       else if b4
                                            then if b5
                                                 then None
                                                 else if b6
                                                      then None
                                                      else (match s0 with
                                                            | [] ->
                                                              (match cs0 with
                                                               | [] ->
                                                                 (match l0 with
                                                                  | [] -> None
                                                                  | l :: l1 ->
                                                                    (match l1 with
                                                                    | [] ->
                                                                    None
                                                                    | r :: l2 ->
                                                                    (match l2 with
                                                                    | [] ->
                                                                    Some
                                                                    ((expect_operand
                                                                    (mk_arg l)) :: (
                                                                    (expect_operand
                                                                    (mk_arg r)) :: []))
                                                                    | _ :: _ ->
                                                                    None)))
                                                               | _ :: _ ->
                                                                 None)
                                                            | _::_ -> None)
                                            else None
                                  else None
                        else None
                   else None)
                   a)
            | _ -> None))
      | KTpl ->
        (match cs with
         | [] -> None
         | n0 :: l ->
           let Node (t0, es) = n0 in
           (match t0 with
            | Lst ->
              (match l with
               | [] -> None
               | _ :: l0 ->
                 (match l0 with
                  | [] -> Some (map (fun e -> expect_operand (mk_arg e)) es)
                  | _ :: _ -> None))
            | _ -> None))
      | KCall ->
        (match cs with
         | [] -> None
         | _ :: l ->
           (match l with
            | [] -> None
            | f :: l0 ->
              let Node (t0, cs0) = f in
              (match t0 with
               | K (k0, _, _) ->
                 (match k0 with
                  | KMember ->
                    (match cs0 with
                     | [] ->
                       (match l0 with
                        | [] -> None
                        | n0 :: l1 ->
                          let Node (t1, args) = n0 in
                          (match t1 with
                           | Lst ->
                             (match l1 with
                              | [] -> None
                              | _ :: l2 ->
                                (match l2 with
                                 | [] ->
                                   if is_ident f
                                   then Some ((Exact (mk_arg f)) :: ((Exact
                                          (mk_arg
                                            (mk_ident (lo, hi)
                                              ('u'::('n'::('d'::('e'::('f'::('i'::('n'::('e'::('d'::[])))))))))))) :: 
                                          (map expect_operand args)))
                                   else None
                                 | _ :: _ -> None))
                           | _ -> None))
                     | f0 :: l1 ->
                       (match l1 with
                        | [] ->
                          (match l0 with
                           | [] -> None
                           | n0 :: l2 ->
                             let Node (t1, args) = n0 in
                             (match t1 with
                              | Lst ->
                                (match l2 with
                                 | [] -> None
                                 | _ :: l3 ->
                                   (match l3 with
                                    | [] ->
                                      if is_ident f
                                      then Some ((Exact
                                             (mk_arg f)) :: ((Exact
                                             (mk_arg
                                               (mk_ident (lo, hi)
                                                 ('u'::('n'::('d'::('e'::('f'::('i'::('n'::('e'::('d'::[])))))))))))) :: 
                                             (map expect_operand args)))
                                      else None
                                    | _ :: _ -> None))
                              | _ -> None))
                        | prop :: l2 ->
                          (match l2 with
                           | [] ->
                             (match l0 with
                              | [] -> None
                              | n0 :: l3 ->
                                let Node (t1, args) = n0 in
                                (match t1 with
                                 | Lst ->
                                   (match l3 with
                                    | [] -> None
                                    | _ :: l4 ->
                                      (match l4 with
                                       | [] ->
                                         (match ident_name_sym prop with
                                          | Some s ->
                                            (match s with
                                             | [] -> None
                                             | a::s0 ->
                                               (* If this appears, you're using Ascii internals. Please don't *)
 (fun f c ->
  let n = Char.code c in
  let h i = (n land (1 lsl i)) <> 0 in
  f (h 0) (h 1) (h 2) (h 3) (h 4) (h 5) (h 6) (h 7))
                                                 (fun b b0 b1 b2 b3 b4 b5 b6 ->
                                                 if b
                                                 then if b0
                                                      then if b1
                                                           then None
                                                           else if b2
                                                                then None
                                                                else 
                                                                  if b3
                                                                  then None
                                                                  else 
                                                                    if b4
                                                                    then 
                                                                    if b5
                                                                    then 
                                                                    if b6
                                                                    then None
                                                                    else 
                                                                    (match s0 with
                                                                    | [] ->
                                                                    None
                                                                    | a0::s1 ->
                                                                    (* If this appears, you're using Ascii internals. Please don't *)
 (fun f c ->
  let n = Char.code c in
  let h i = (n land (1 lsl i)) <> 0 in
  f (h 0) (h 1) (h 2) (h 3) (h 4) (h 5) (h 6) (h 7))
                                                                    (fun b7 b8 b9 b10 b11 b12 b13 b14 ->
                                                                    if b7
                                                                    then 
                                                                    if b8
                                                                    then None
                                                                    else 
                                                                    if b9
                                                                    then None
                                                                    else 
                                                                    if b10
                                                                    then None
                                                                    else 
                                                                    if b11
                                                                    then None
                                                                    else 
                                                                    if b12
                                                                    then 
                                                                    if b13
                                                                    then 
                                                                    if b14
                                                                    then None
                                                                    else 
                                                                    (match s1 with
                                                                    | [] ->
                                                                    None
                                                                    | a1::s2 ->
                                                                    (* If this appears, you're using Ascii internals. Please don't *)
 (fun f c ->
  let n = Char.code c in
  let h i = (n land (1 lsl i)) <> 0 in
  f (h 0) (h 1) (h 2) (h 3) (h 4) (h 5) (h 6) (h 7))
                                                                    (fun b15 b16 b17 b18 b19 b20 b21 b22 ->
                                                                    if b15
                                                                    then None
                                                                    else 
                                                                    if b16
                                                                    then None
                                                                    else 
                                                                    if b17
                                                                    then 
                                                                    if b18
                                                                    then 
                                                                    if b19
                                                                    then None
                                                                    else 
                                                                    if b20
                                                                    then 
                                                                    if b21
                                                                    then 
                                                                    if b22
                                                                    then None
                                                                    else 
                                                                    (match s2 with
                                                                    | [] ->
                                                                    None
                                                                    | a2::s3 ->
                                                                    (* If this appears, you're using Ascii internals. Please don't *)
 (fun f c ->
  let n = Char.code c in
  let h i = (n land (1 lsl i)) <> 0 in
  f (h 0) (h 1) (h 2) (h 3) (h 4) (h 5) (h 6) (h 7))
                                                                    (fun b23 b24 b25 b26 b27 b28 b29 b30 ->
                                                                    if b23
                                                                    then None
                                                                    else 
                                                                    if b24
                                                                    then None
                                                                    else 
                                                                    if b25
                                                                    then 
                                                                    if b26
                                                                    then 
                                                                    if b27
                                                                    then None
                                                                    else 
                                                                    if b28
                                                                    then 
                                                                    if b29
                                                                    then 
                                                                    if b30
                                                                    then None
                                                                    else 
                                                                    (match s3 with
                                                                    | [] ->
                                                                    (match args with
                                                                    | [] ->
                                                                    None
                                                                    | this :: rest ->
                                                                    if 
                                                                    arg_is_spread
                                                                    this
                                                                    then 
                                                                    Some
                                                                    ((Exact
                                                                    (mk_arg
                                                                    f0)) :: 
                                                                    (map
                                                                    expect_operand
                                                                    args))
                                                                    else 
                                                                    Some
                                                                    ((Exact
                                                                    (mk_arg
                                                                    f0)) :: ((Exact
                                                                    this) :: 
                                                                    (map
                                                                    expect_operand
                                                                    rest))))
                                                                    | _::_ ->
                                                                    None)
                                                                    else None
                                                                    else None
                                                                    else None
                                                                    else None)
                                                                    a2)
                                                                    else None
                                                                    else None
                                                                    else None
                                                                    else None)
                                                                    a1)
                                                                    else None
                                                                    else None
                                                                    else None)
                                                                    a0)
                                                                    else None
                                                                    else None
                                                      else if b1
                                                           then None
                                                           else if b2
                                                                then None
                                                                else 
                                                                  if b3
                                                                  then None
                                                                  else 
                                                                    if b4
                                                                    then 
                                                                    if b5
                                                                    then 
                                                                    if b6
                                                                    then None
                                                                    else 
                                                                    (match s0 with
                                                                    | [] ->
                                                                    None
                                                                    | a0::s1 ->
                                                                    (* If this appears, you're using Ascii internals. Please don't *)
 (fun f c ->
  let n = Char.code c in
  let h i = (n land (1 lsl i)) <> 0 in
  f (h 0) (h 1) (h 2) (h 3) (h 4) (h 5) (h 6) (h 7))
                                                                    (fun b7 b8 b9 b10 b11 b12 b13 b14 ->
                                                                    if b7
                                                                    then None
                                                                    else 
                                                                    if b8
                                                                    then None
                                                                    else 
                                                                    if b9
                                                                    then None
                                                                    else 
                                                                    if b10
                                                                    then None
                                                                    else 
                                                                    if b11
                                                                    then 
                                                                    if b12
                                                                    then 
                                                                    if b13
                                                                    then 
                                                                    if b14
                                                                    then None
                                                                    else 
                                                                    (match s1 with
                                                                    | [] ->
                                                                    None
                                                                    | a1::s2 ->
                                                                    (* If this appears, you're using Ascii internals. Please don't *)
 (fun f c ->
  let n = Char.code c in
  let h i = (n land (1 lsl i)) <> 0 in
  f (h 0) (h 1) (h 2) (h 3) (h 4) (h 5) (h 6) (h 7))
                                                                    (fun b15 b16 b17 b18 b19 b20 b21 b22 ->
                                                                    if b15
                                                                    then None
                                                                    else 
                                                                    if b16
                                                                    then None
                                                                    else 
                                                                    if b17
                                                                    then None
                                                                    else 
                                                                    if b18
                                                                    then None
                                                                    else 
                                                                    if b19
                                                                    then 
                                                                    if b20
                                                                    then 
                                                                    if b21
                                                                    then 
                                                                    if b22
                                                                    then None
                                                                    else 
                                                                    (match s2 with
                                                                    | [] ->
                                                                    None
                                                                    | a2::s3 ->
                                                                    (* If this appears, you're using Ascii internals. Please don't *)
 (fun f c ->
  let n = Char.code c in
  let h i = (n land (1 lsl i)) <> 0 in
  f (h 0) (h 1) (h 2) (h 3) (h 4) (h 5) (h 6) (h 7))
                                                                    (fun b23 b24 b25 b26 b27 b28 b29 b30 ->
                                                                    if b23
                                                                    then None
                                                                    else 
                                                                    if b24
                                                                    then None
                                                                    else 
                                                                    if b25
                                                                    then 
                                                                    if b26
                                                                    then 
                                                                    if b27
                                                                    then None
                                                                    else 
                                                                    if b28
                                                                    then 
                                                                    if b29
                                                                    then 
                                                                    if b30
                                                                    then None
                                                                    else 
                                                                    (match s3 with
                                                                    | [] ->
                                                                    None
                                                                    | a3::s4 ->
                                                                    (* If this appears, you're using Ascii internals. Please don't *)
 (fun f c ->
  let n = Char.code c in
  let h i = (n land (1 lsl i)) <> 0 in
  f (h 0) (h 1) (h 2) (h 3) (h 4) (h 5) (h 6) (h 7))
                                                                    (fun b31 b32 b33 b34 b35 b36 b37 b38 ->
                                                                    if b31
                                                                    then 
                                                                    if b32
                                                                    then None
                                                                    else 
                                                                    if b33
                                                                    then None
                                                                    else 
                                                                    if b34
                                                                    then 
                                                                    if b35
                                                                    then 
                                                                    if b36
                                                                    then 
                                                                    if b37
                                                                    then 
                                                                    if b38
                                                                    then None
                                                                    else 
                                                                    (match s4 with
                                                                    | [] ->
                                                                    (match args with
                                                                    | [] ->
                                                                    None
                                                                    | this :: rest ->
                                                                    if 
                                                                    arg_is_spread
                                                                    this
                                                                    then 
                                                                    Some
                                                                    ((Exact
                                                                    (mk_arg
                                                                    f0)) :: 
                                                                    (map
                                                                    expect_operand
                                                                    args))
                                                                    else 
                                                                    Some
                                                                    ((Exact
                                                                    (mk_arg
                                                                    f0)) :: ((Exact
                                                                    this) :: 
                                                                    (flat_map
                                                                    (fun a4 ->
                                                                    let Node (
                                                                    t2, cs1) =
                                                                    a4
                                                                    in
                                                                    (
                                                                    match t2 with
                                                                    | Obj ->
                                                                    (match cs1 with
                                                                    | [] ->
                                                                    (expect_operand
                                                                    a4) :: []
                                                                    | n1 :: l5 ->
                                                                    let Node (
                                                                    t3, cs2) =
                                                                    n1
                                                                    in
                                                                    (
                                                                    match t3 with
                                                                    | Nul ->
                                                                    (match cs2 with
                                                                    | [] ->
                                                                    (match l5 with
                                                                    | [] ->
                                                                    (expect_operand
                                                                    a4) :: []
                                                                    | n2 :: l6 ->
                                                                    let Node (
                                                                    t4, cs3) =
                                                                    n2
                                                                    in
                                                                    (
                                                                    match t4 with
                                                                    | K (
                                                                    k1, _, _) ->
                                                                    (match k1 with
                                                                    | KArray ->
                                                                    (match cs3 with
                                                                    | [] ->
                                                                    (expect_operand
                                                                    a4) :: []
                                                                    | n3 :: l7 ->
                                                                    let Node (
                                                                    t5, elems) =
                                                                    n3
                                                                    in
                                                                    (
                                                                    match t5 with
                                                                    | Lst ->
                                                                    (match l7 with
                                                                    | [] ->
                                                                    (match l6 with
                                                                    | [] ->
                                                                    map
                                                                    expect_operand
                                                                    elems
                                                                    | _ :: _ ->
                                                                    (expect_operand
                                                                    a4) :: [])
                                                                    | _ :: _ ->
                                                                    (expect_operand
                                                                    a4) :: [])
                                                                    | _ ->
                                                                    (expect_operand
                                                                    a4) :: []))
                                                                    | _ ->
                                                                    (expect_operand
                                                                    a4) :: [])
                                                                    | _ ->
                                                                    (expect_operand
                                                                    a4) :: []))
                                                                    | _ :: _ ->
                                                                    (expect_operand
                                                                    a4) :: [])
                                                                    | _ ->
                                                                    (expect_operand
                                                                    a4) :: []))
                                                                    | _ ->
                                                                    (expect_operand
                                                                    a4) :: []))
                                                                    rest))))
                                                                    | _::_ ->
                                                                    None)
                                                                    else None
                                                                    else None
                                                                    else None
                                                                    else None
                                                                    else None)
                                                                    a3)
                                                                    else None
                                                                    else None
                                                                    else None
                                                                    else None)
                                                                    a2)
                                                                    else None
                                                                    else None
                                                                    else None)
                                                                    a1)
                                                                    else None
                                                                    else None
                                                                    else None)
                                                                    a0)
                                                                    else None
                                                                    else None
                                                 else None)
                                                 a)
                                          | None -> None)
                                       | _ :: _ -> None))
                                 | _ -> None))
                           | _ :: _ ->
                             (match l0 with
                              | [] -> None
                              | n1 :: l4 ->
                                let Node (t1, args) = n1 in
                                (match t1 with
                                 | Lst ->
                                   (match l4 with
                                    | [] -> None
                                    | _ :: l5 ->
                                      (match l5 with
                                       | [] ->
                                         if is_ident f
                                         then Some ((Exact
                                                (mk_arg f)) :: ((Exact
                                                (mk_arg
                                                  (mk_ident (lo, hi)
                                                    ('u'::('n'::('d'::('e'::('f'::('i'::('n'::('e'::('d'::[])))))))))))) :: 
                                                (map expect_operand args)))
                                         else None
                                       | _ :: _ -> None))
                                 | _ -> None)))))
                  | _ ->
                    (match l0 with
                     | [] -> None
                     | n0 :: l1 ->
                       let Node (t1, args) = n0 in
                       (match t1 with
                        | Lst ->
                          (match l1 with
                           | [] -> None
                           | _ :: l2 ->
                             (match l2 with
                              | [] ->
                                if is_ident f
                                then Some ((Exact (mk_arg f)) :: ((Exact
                                       (mk_arg
                                         (mk_ident (lo, hi)
                                           ('u'::('n'::('d'::('e'::('f'::('i'::('n'::('e'::('d'::[])))))))))))) :: 
                                       (map expect_operand args)))
                                else None
                              | _ :: _ -> None))
                        | _ -> None)))
               | _ ->
                 (match l0 with
                  | [] -> None
                  | n0 :: l1 ->
                    let Node (t1, args) = n0 in
                    (match t1 with
                     | Lst ->
                       (match l1 with
                        | [] -> None
                        | _ :: l2 ->
                          (match l2 with
                           | [] ->
                             if is_ident f
                             then Some ((Exact (mk_arg f)) :: ((Exact
                                    (mk_arg
                                      (mk_ident (lo, hi)
                                        ('u'::('n'::('d'::('e'::('f'::('i'::('n'::('e'::('d'::[])))))))))))) :: 
                                    (map expect_operand args)))
                             else None
                           | _ :: _ -> None))
                     | _ -> None)))))
      | _ -> None)
   | _ -> None)

(** val simple_arg : char list -> node -> bool **)

let simple_arg _ a =
  match arg_expr a with
  | Some e -> (||) (is_lit e) (is_ident e)
  | None -> false

(** val match_args :
    char list -> expected list -> node list -> char list list **)

let rec match_args vp ex actual =
  match ex with
  | [] ->
    (match actual with
     | [] -> []
     | _ :: _ ->
       ('e'::('x'::('t'::('r'::('a'::('-'::('a'::('r'::('g'::('u'::('m'::('e'::('n'::('t'::[])))))))))))))) :: [])
  | e0 :: ex' ->
    (match e0 with
     | Exact a ->
       (match actual with
        | [] ->
          ('m'::('i'::('s'::('s'::('i'::('n'::('g'::('-'::('a'::('r'::('g'::('u'::('m'::('e'::('n'::('t'::[])))))))))))))))) :: []
        | b :: actual' ->
          app
            (if (&&) (eqb0 (arg_is_spread a) (arg_is_spread b))
                  (match arg_expr a with
                   | Some x ->
                     (match arg_expr b with
                      | Some y -> node_eqb x y
                      | None -> false)
                   | None -> false)
             then []
             else ('d'::('i'::('f'::('f'::('e'::('r'::('e'::('n'::('t'::('-'::('a'::('r'::('g'::('u'::('m'::('e'::('n'::('t'::[])))))))))))))))))) :: [])
            (app
              (if simple_arg vp b
               then []
               else ('c'::('o'::('m'::('p'::('l'::('e'::('x'::('-'::('a'::('r'::('g'::('u'::('m'::('e'::('n'::('t'::[])))))))))))))))) :: [])
              (match_args vp ex' actual')))
     | OmittedSum _ ->
       ('s'::('u'::('m'::('-'::('o'::('p'::('e'::('r'::('a'::('n'::('d'::('-'::('o'::('m'::('i'::('t'::('t'::('e'::('d'::[]))))))))))))))))))) :: 
         (match_args vp ex' actual)
     | Hole ->
       ('a'::('p'::('p'::('l'::('y'::('-'::('h'::('o'::('l'::('e'::('-'::('d'::('r'::('o'::('p'::('p'::('e'::('d'::[])))))))))))))))))) :: 
         (match_args vp ex' actual)
     | Unspread e ->
       (match actual with
        | [] ->
          ('m'::('i'::('s'::('s'::('i'::('n'::('g'::('-'::('a'::('r'::('g'::('u'::('m'::('e'::('n'::('t'::[])))))))))))))))) :: []
        | b :: actual' ->
          app
            (match arg_expr b with
             | Some e' ->
               if (&&) (node_eqb e e') (negb (arg_is_spread b))
               then ('s'::('p'::('r'::('e'::('a'::('d'::('-'::('l'::('i'::('t'::('e'::('r'::('a'::('l'::('-'::('u'::('n'::('s'::('p'::('r'::('e'::('a'::('d'::[]))))))))))))))))))))))) :: []
               else ('d'::('i'::('f'::('f'::('e'::('r'::('e'::('n'::('t'::('-'::('a'::('r'::('g'::('u'::('m'::('e'::('n'::('t'::[])))))))))))))))))) :: []
             | None ->
               ('d'::('i'::('f'::('f'::('e'::('r'::('e'::('n'::('t'::('-'::('a'::('r'::('g'::('u'::('m'::('e'::('n'::('t'::[])))))))))))))))))) :: [])
            (match_args vp ex' actual')))

(** val apply_spread_args : node -> bool **)

let apply_spread_args = function
| Node (t, cs) ->
  (match t with
   | K (k, _, _) ->
     (match k with
      | KCall ->
        (match cs with
         | [] -> false
         | _ :: l ->
           (match l with
            | [] -> false
            | n0 :: l0 ->
              let Node (t0, cs0) = n0 in
              (match t0 with
               | K (k0, _, _) ->
                 (match k0 with
                  | KMember ->
                    (match cs0 with
                     | [] -> false
                     | _ :: l1 ->
                       (match l1 with
                        | [] -> false
                        | prop :: l2 ->
                          (match l2 with
                           | [] ->
                             (match l0 with
                              | [] -> false
                              | n2 :: l3 ->
                                let Node (t1, cs1) = n2 in
                                (match t1 with
                                 | Lst ->
                                   (match cs1 with
                                    | [] -> false
                                    | this :: l4 ->
                                      (match l4 with
                                       | [] -> false
                                       | second :: _ ->
                                         (match l3 with
                                          | [] -> false
                                          | _ :: l6 ->
                                            (match l6 with
                                             | [] ->
                                               (match ident_name_sym prop with
                                                | Some s ->
                                                  (match s with
                                                   | [] -> false
                                                   | a::s0 ->
                                                     (* If this appears, you're using Ascii internals. Please don't *)
 (fun f c ->
  let n = Char.code c in
  let h i = (n land (1 lsl i)) <> 0 in
  f (h 0) (h 1) (h 2) (h 3) (h 4) (h 5) (h 6) (h 7))
                                                       (fun b b0 b1 b2 b3 b4 b5 b6 ->
                                                       if b
                                                       then if b0
                                                            then false
                                                            else if b1
                                                                 then false
                                                                 else 
                                                                   if b2
                                                                   then false
                                                                   else 
                                                                    if b3
                                                                    then false
                                                                    else 
                                                                    if b4
                                                                    then 
                                                                    if b5
                                                                    then 
                                                                    if b6
                                                                    then false
                                                                    else 
                                                                    (match s0 with
                                                                    | [] ->
                                                                    false
                                                                    | a0::s1 ->
                                                                    (* If this appears, you're using Ascii internals. Please don't *)
 (fun f c ->
  let n = Char.code c in
  let h i = (n land (1 lsl i)) <> 0 in
  f (h 0) (h 1) (h 2) (h 3) (h 4) (h 5) (h 6) (h 7))
                                                                    (fun b7 b8 b9 b10 b11 b12 b13 b14 ->
                                                                    if b7
                                                                    then false
                                                                    else 
                                                                    if b8
                                                                    then false
                                                                    else 
                                                                    if b9
                                                                    then false
                                                                    else 
                                                                    if b10
                                                                    then false
                                                                    else 
                                                                    if b11
                                                                    then 
                                                                    if b12
                                                                    then 
                                                                    if b13
                                                                    then 
                                                                    if b14
                                                                    then false
                                                                    else 
                                                                    (match s1 with
                                                                    | [] ->
                                                                    false
                                                                    | a1::s2 ->
                                                                    (* If this appears, you're using Ascii internals. Please don't *)
 (fun f c ->
  let n = Char.code c in
  let h i = (n land (1 lsl i)) <> 0 in
  f (h 0) (h 1) (h 2) (h 3) (h 4) (h 5) (h 6) (h 7))
                                                                    (fun b15 b16 b17 b18 b19 b20 b21 b22 ->
                                                                    if b15
                                                                    then false
                                                                    else 
                                                                    if b16
                                                                    then false
                                                                    else 
                                                                    if b17
                                                                    then false
                                                                    else 
                                                                    if b18
                                                                    then false
                                                                    else 
                                                                    if b19
                                                                    then 
                                                                    if b20
                                                                    then 
                                                                    if b21
                                                                    then 
                                                                    if b22
                                                                    then false
                                                                    else 
                                                                    (match s2 with
                                                                    | [] ->
                                                                    false
                                                                    | a2::s3 ->
                                                                    (* If this appears, you're using Ascii internals. Please don't *)
 (fun f c ->
  let n = Char.code c in
  let h i = (n land (1 lsl i)) <> 0 in
  f (h 0) (h 1) (h 2) (h 3) (h 4) (h 5) (h 6) (h 7))
                                                                    (fun b23 b24 b25 b26 b27 b28 b29 b30 ->
                                                                    if b23
                                                                    then false
                                                                    else 
                                                                    if b24
                                                                    then false
                                                                    else 
                                                                    if b25
                                                                    then 
                                                                    if b26
                                                                    then 
                                                                    if b27
                                                                    then false
                                                                    else 
                                                                    if b28
                                                                    then 
                                                                    if b29
                                                                    then 
                                                                    if b30
                                                                    then false
                                                                    else 
                                                                    (match s3 with
                                                                    | [] ->
                                                                    false
                                                                    | a3::s4 ->
                                                                    (* If this appears, you're using Ascii internals. Please don't *)
 (fun f c ->
  let n = Char.code c in
  let h i = (n land (1 lsl i)) <> 0 in
  f (h 0) (h 1) (h 2) (h 3) (h 4) (h 5) (h 6) (h 7))
                                                                    (fun b31 b32 b33 b34 b35 b36 b37 b38 ->
                                                                    if b31
                                                                    then 
                                                                    if b32
                                                                    then false
                                                                    else 
                                                                    if b33
                                                                    then false
                                                                    else 
                                                                    if b34
                                                                    then 
                                                                    if b35
                                                                    then 
                                                                    if b36
                                                                    then 
                                                                    if b37
                                                                    then 
                                                                    if b38
                                                                    then false
                                                                    else 
                                                                    (match s4 with
                                                                    | [] ->
                                                                    (||)
                                                                    (arg_is_spread
                                                                    this)
                                                                    (arg_is_spread
                                                                    second)
                                                                    | _::_ ->
                                                                    false)
                                                                    else false
                                                                    else false
                                                                    else false
                                                                    else false
                                                                    else false)
                                                                    a3)
                                                                    else false
                                                                    else false
                                                                    else false
                                                                    else false)
                                                                    a2)
                                                                    else false
                                                                    else false
                                                                    else false)
                                                                    a1)
                                                                    else false
                                                                    else false
                                                                    else false)
                                                                    a0)
                                                                    else false
                                                                    else false
                                                       else false)
                                                       a)
                                                | None -> false)
                                             | _ :: _ -> false))))
                                 | _ -> false))
                           | _ :: _ -> false)))
                  | _ -> false)
               | _ -> false)))
      | _ -> false)
   | _ -> false)

(** val has_dup_str : char list list -> bool **)

let rec has_dup_str = function
| [] -> false
| x :: r -> (||) (existsb (eqb1 x) r) (has_dup_str r)

(** val operand_temps : char list -> node list -> char list list **)

let operand_temps vp args =
  flat_map (fun a ->
    match arg_expr a with
    | Some e -> (match is_temp_ident vp e with
                 | Some t -> t :: []
                 | None -> [])
    | None -> []) args

(** val shape_issues : char list -> node -> char list list **)

let rec shape_issues vp n0 =
  app
    (match hook_call n0 with
     | Some p ->
       let (_, l) = p in
       (match l with
        | [] ->
          ('n'::('o'::('-'::('f'::('i'::('r'::('s'::('t'::('-'::('a'::('r'::('g'::('u'::('m'::('e'::('n'::('t'::[]))))))))))))))))) :: []
        | a0 :: rest ->
          (match arg_expr a0 with
           | Some op ->
             app
               (if arg_is_spread a0
                then ('s'::('p'::('r'::('e'::('a'::('d'::('-'::('r'::('e'::('s'::('u'::('l'::('t'::[]))))))))))))) :: []
                else [])
               (app
                 (if has_dup_str (operand_temps vp rest)
                  then ('o'::('p'::('e'::('r'::('a'::('n'::('d'::('-'::('t'::('e'::('m'::('p'::('o'::('r'::('a'::('r'::('y'::('-'::('s'::('h'::('a'::('r'::('e'::('d'::[])))))))))))))))))))))))) :: []
                  else [])
                 (match expected_of_operation op with
                  | Some ex ->
                    if apply_spread_args op
                    then ('a'::('p'::('p'::('l'::('y'::('-'::('s'::('p'::('r'::('e'::('a'::('d'::('-'::('a'::('r'::('g'::('s'::[]))))))))))))))))) :: []
                    else match_args vp ex rest
                  | None ->
                    ('u'::('n'::('k'::('n'::('o'::('w'::('n'::('-'::('o'::('p'::('e'::('r'::('a'::('t'::('i'::('o'::('n'::[]))))))))))))))))) :: []))
           | None ->
             ('n'::('o'::('-'::('f'::('i'::('r'::('s'::('t'::('-'::('a'::('r'::('g'::('u'::('m'::('e'::('n'::('t'::[]))))))))))))))))) :: []))
     | None -> [])
    (let Node (_, cs) = n0 in
     let rec go = function
     | [] -> []
     | c :: l' -> app (shape_issues vp c) (go l')
     in go cs)

(** val inert : node -> bool **)

let inert e =
  (||) ((||) (is_lit e) (is_ident e)) (is_kind KThis e)

(** val static_path0 : node -> bool **)

let rec static_path0 = function
| Node (t, cs) ->
  (match t with
   | K (k, _, _) ->
     (match k with
      | KMember ->
        (match cs with
         | [] -> false
         | obj :: l ->
           (match l with
            | [] -> false
            | n0 :: l0 ->
              let Node (t0, _) = n0 in
              (match t0 with
               | K (k0, _, _) ->
                 (match k0 with
                  | KIdentName ->
                    (match l0 with
                     | [] -> static_path0 obj
                     | _ :: _ -> false)
                  | _ -> false)
               | _ -> false)))
      | KIdent -> true
      | KThis -> true
      | _ -> false)
   | _ -> false)

(** val arg_exprs : node list -> node list **)

let arg_exprs args =
  flat_map (fun a ->
    let Node (t, cs) = a in
    (match t with
     | Obj ->
       (match cs with
        | [] -> (match arg_expr a with
                 | Some e -> e :: []
                 | None -> [])
        | _ :: l ->
          (match l with
           | [] -> (match arg_expr a with
                    | Some e -> e :: []
                    | None -> [])
           | n0 :: l0 ->
             let Node (t0, cs0) = n0 in
             (match t0 with
              | K (k, _, _) ->
                (match k with
                 | KArray ->
                   (match cs0 with
                    | [] ->
                      (match arg_expr a with
                       | Some e -> e :: []
                       | None -> [])
                    | n1 :: l1 ->
                      let Node (t1, elems) = n1 in
                      (match t1 with
                       | Lst ->
                         (match l1 with
                          | [] ->
                            (match l0 with
                             | [] ->
                               flat_map (fun el ->
                                 match arg_expr el with
                                 | Some e -> e :: []
                                 | None -> []) elems
                             | _ :: _ ->
                               (match arg_expr a with
                                | Some e -> e :: []
                                | None -> []))
                          | _ :: _ ->
                            (match arg_expr a with
                             | Some e -> e :: []
                             | None -> []))
                       | _ ->
                         (match arg_expr a with
                          | Some e -> e :: []
                          | None -> [])))
                 | _ -> (match arg_expr a with
                         | Some e -> e :: []
                         | None -> []))
              | _ -> (match arg_expr a with
                      | Some e -> e :: []
                      | None -> []))))
     | _ -> (match arg_expr a with
             | Some e -> e :: []
             | None -> []))) args

(** val plain_arg_exprs : node list -> node list **)

let plain_arg_exprs args =
  flat_map (fun a -> match arg_expr a with
                     | Some e -> e :: []
                     | None -> []) args

type op_view =
| OpOperands of node list
| OpCall of node * node * node list
| OpBare of node * node list
| OpUnknown

(** val view_op : node -> op_view **)

let view_op = function
| Node (t, cs) ->
  (match t with
   | K (k, _, _) ->
     (match k with
      | KBin ->
        (match cs with
         | [] -> OpUnknown
         | _ :: l0 ->
           (match l0 with
            | [] -> OpUnknown
            | l :: l1 ->
              (match l1 with
               | [] -> OpUnknown
               | r :: l2 ->
                 (match l2 with
                  | [] -> OpOperands (l :: (r :: []))
                  | _ :: _ -> OpUnknown))))
      | KTpl ->
        (match cs with
         | [] -> OpUnknown
         | n0 :: l ->
           let Node (t0, es) = n0 in
           (match t0 with
            | Lst ->
              (match l with
               | [] -> OpUnknown
               | _ :: l0 ->
                 (match l0 with
                  | [] -> OpOperands es
                  | _ :: _ -> OpUnknown))
            | _ -> OpUnknown))
      | KCall ->
        (match cs with
         | [] -> OpUnknown
         | _ :: l ->
           (match l with
            | [] -> OpUnknown
            | f :: l0 ->
              let Node (t0, cs0) = f in
              (match t0 with
               | K (k0, _, _) ->
                 (match k0 with
                  | KMember ->
                    (match cs0 with
                     | [] ->
                       (match l0 with
                        | [] -> OpUnknown
                        | n0 :: l1 ->
                          let Node (t1, args) = n0 in
                          (match t1 with
                           | Lst ->
                             (match l1 with
                              | [] -> OpUnknown
                              | _ :: l2 ->
                                (match l2 with
                                 | [] ->
                                   if is_ident f
                                   then OpBare (f, (plain_arg_exprs args))
                                   else OpUnknown
                                 | _ :: _ -> OpUnknown))
                           | _ -> OpUnknown))
                     | f0 :: l1 ->
                       (match l1 with
                        | [] ->
                          (match l0 with
                           | [] -> OpUnknown
                           | n0 :: l2 ->
                             let Node (t1, args) = n0 in
                             (match t1 with
                              | Lst ->
                                (match l2 with
                                 | [] -> OpUnknown
                                 | _ :: l3 ->
                                   (match l3 with
                                    | [] ->
                                      if is_ident f
                                      then OpBare (f, (plain_arg_exprs args))
                                      else OpUnknown
                                    | _ :: _ -> OpUnknown))
                              | _ -> OpUnknown))
                        | prop :: l2 ->
                          (match l2 with
                           | [] ->
                             (match l0 with
                              | [] -> OpUnknown
                              | n0 :: l3 ->
                                let Node (t1, args) = n0 in
                                (match t1 with
                                 | Lst ->
                                   (match args with
                                    | [] ->
                                      (match l3 with
                                       | [] -> OpUnknown
                                       | _ :: l4 ->
                                         (match l4 with
                                          | [] ->
                                            if is_ident f
                                            then OpBare (f,
                                                   (plain_arg_exprs args))
                                            else OpUnknown
                                          | _ :: _ -> OpUnknown))
                                    | this :: rest ->
                                      (match l3 with
                                       | [] -> OpUnknown
                                       | _ :: l4 ->
                                         (match l4 with
                                          | [] ->
                                            (match ident_name_sym prop with
                                             | Some s ->
                                               (match s with
                                                | [] -> OpUnknown
                                                | a::s0 ->
                                                  (* If this appears, you're using Ascii internals. Please don't *)
 (fun f c ->
  let n = Char.code c in
  let h i = (n land (1 lsl i)) <> 0 in
  f (h 0) (h 1) (h 2) (h 3) (h 4) (h 5) (h 6) (h 7))
                                                    (fun b b0 b1 b2 b3 b4 b5 b6 ->
                                                    if b
                                                    then if b0
                                                         then if b1
                                                              then OpUnknown
                                                              else if b2
                                                                   then 
                                                                    OpUnknown
                                                                   else 
                                                                    if b3
                                                                    then 
                                                                    OpUnknown
                                                                    else 
                                                                    if b4
                                                                    then 
                                                                    if b5
                                                                    then 
                                                                    if b6
                                                                    then 
                                                                    OpUnknown
                                                                    else 
                                                                    (match s0 with
                                                                    | [] ->
                                                                    OpUnknown
                                                                    | a0::s1 ->
                                                                    (* If this appears, you're using Ascii internals. Please don't *)
 (fun f c ->
  let n = Char.code c in
  let h i = (n land (1 lsl i)) <> 0 in
  f (h 0) (h 1) (h 2) (h 3) (h 4) (h 5) (h 6) (h 7))
                                                                    (fun b7 b8 b9 b10 b11 b12 b13 b14 ->
                                                                    if b7
                                                                    then 
                                                                    if b8
                                                                    then 
                                                                    OpUnknown
                                                                    else 
                                                                    if b9
                                                                    then 
                                                                    OpUnknown
                                                                    else 
                                                                    if b10
                                                                    then 
                                                                    OpUnknown
                                                                    else 
                                                                    if b11
                                                                    then 
                                                                    OpUnknown
                                                                    else 
                                                                    if b12
                                                                    then 
                                                                    if b13
                                                                    then 
                                                                    if b14
                                                                    then 
                                                                    OpUnknown
                                                                    else 
                                                                    (match s1 with
                                                                    | [] ->
                                                                    OpUnknown
                                                                    | a1::s2 ->
                                                                    (* If this appears, you're using Ascii internals. Please don't *)
 (fun f c ->
  let n = Char.code c in
  let h i = (n land (1 lsl i)) <> 0 in
  f (h 0) (h 1) (h 2) (h 3) (h 4) (h 5) (h 6) (h 7))
                                                                    (fun b15 b16 b17 b18 b19 b20 b21 b22 ->
                                                                    if b15
                                                                    then 
                                                                    OpUnknown
                                                                    else 
                                                                    if b16
                                                                    then 
                                                                    OpUnknown
                                                                    else 
                                                                    if b17
                                                                    then 
                                                                    if b18
                                                                    then 
                                                                    if b19
                                                                    then 
                                                                    OpUnknown
                                                                    else 
                                                                    if b20
                                                                    then 
                                                                    if b21
                                                                    then 
                                                                    if b22
                                                                    then 
                                                                    OpUnknown
                                                                    else 
                                                                    (match s2 with
                                                                    | [] ->
                                                                    OpUnknown
                                                                    | a2::s3 ->
                                                                    (* If this appears, you're using Ascii internals. Please don't *)
 (fun f c ->
  let n = Char.code c in
  let h i = (n land (1 lsl i)) <> 0 in
  f (h 0) (h 1) (h 2) (h 3) (h 4) (h 5) (h 6) (h 7))
                                                                    (fun b23 b24 b25 b26 b27 b28 b29 b30 ->
                                                                    if b23
                                                                    then 
                                                                    OpUnknown
                                                                    else 
                                                                    if b24
                                                                    then 
                                                                    OpUnknown
                                                                    else 
                                                                    if b25
                                                                    then 
                                                                    if b26
                                                                    then 
                                                                    if b27
                                                                    then 
                                                                    OpUnknown
                                                                    else 
                                                                    if b28
                                                                    then 
                                                                    if b29
                                                                    then 
                                                                    if b30
                                                                    then 
                                                                    OpUnknown
                                                                    else 
                                                                    (match s3 with
                                                                    | [] ->
                                                                    (match 
                                                                    arg_expr
                                                                    this with
                                                                    | Some t2 ->
                                                                    OpCall
                                                                    (f0, t2,
                                                                    (plain_arg_exprs
                                                                    rest))
                                                                    | None ->
                                                                    OpUnknown)
                                                                    | _::_ ->
                                                                    OpUnknown)
                                                                    else 
                                                                    OpUnknown
                                                                    else 
                                                                    OpUnknown
                                                                    else 
                                                                    OpUnknown
                                                                    else 
                                                                    OpUnknown)
                                                                    a2)
                                                                    else 
                                                                    OpUnknown
                                                                    else 
                                                                    OpUnknown
                                                                    else 
                                                                    OpUnknown
                                                                    else 
                                                                    OpUnknown)
                                                                    a1)
                                                                    else 
                                                                    OpUnknown
                                                                    else 
                                                                    OpUnknown
                                                                    else 
                                                                    OpUnknown)
                                                                    a0)
                                                                    else 
                                                                    OpUnknown
                                                                    else 
                                                                    OpUnknown
                                                         else if b1
                                                              then OpUnknown
                                                              else if b2
                                                                   then 
                                                                    OpUnknown
                                                                   else 
                                                                    if b3
                                                                    then 
                                                                    OpUnknown
                                                                    else 
                                                                    if b4
                                                                    then 
                                                                    if b5
                                                                    then 
                                                                    if b6
                                                                    then 
                                                                    OpUnknown
                                                                    else 
                                                                    (match s0 with
                                                                    | [] ->
                                                                    OpUnknown
                                                                    | a0::s1 ->
                                                                    (* If this appears, you're using Ascii internals. Please don't *)
 (fun f c ->
  let n = Char.code c in
  let h i = (n land (1 lsl i)) <> 0 in
  f (h 0) (h 1) (h 2) (h 3) (h 4) (h 5) (h 6) (h 7))
                                                                    (fun b7 b8 b9 b10 b11 b12 b13 b14 ->
                                                                    if b7
                                                                    then 
                                                                    OpUnknown
                                                                    else 
                                                                    if b8
                                                                    then 
                                                                    OpUnknown
                                                                    else 
                                                                    if b9
                                                                    then 
                                                                    OpUnknown
                                                                    else 
                                                                    if b10
                                                                    then 
                                                                    OpUnknown
                                                                    else 
                                                                    if b11
                                                                    then 
                                                                    if b12
                                                                    then 
                                                                    if b13
                                                                    then 
                                                                    if b14
                                                                    then 
                                                                    OpUnknown
                                                                    else 
                                                                    (match s1 with
                                                                    | [] ->
                                                                    OpUnknown
                                                                    | a1::s2 ->
                                                                    (* If this appears, you're using Ascii internals. Please don't *)
 (fun f c ->
  let n = Char.code c in
  let h i = (n land (1 lsl i)) <> 0 in
  f (h 0) (h 1) (h 2) (h 3) (h 4) (h 5) (h 6) (h 7))
                                                                    (fun b15 b16 b17 b18 b19 b20 b21 b22 ->
                                                                    if b15
                                                                    then 
                                                                    OpUnknown
                                                                    else 
                                                                    if b16
                                                                    then 
                                                                    OpUnknown
                                                                    else 
                                                                    if b17
                                                                    then 
                                                                    OpUnknown
                                                                    else 
                                                                    if b18
                                                                    then 
                                                                    OpUnknown
                                                                    else 
                                                                    if b19
                                                                    then 
                                                                    if b20
                                                                    then 
                                                                    if b21
                                                                    then 
                                                                    if b22
                                                                    then 
                                                                    OpUnknown
                                                                    else 
                                                                    (match s2 with
                                                                    | [] ->
                                                                    OpUnknown
                                                                    | a2::s3 ->
                                                                    (* If this appears, you're using Ascii internals. Please don't *)
 (fun f c ->
  let n = Char.code c in
  let h i = (n land (1 lsl i)) <> 0 in
  f (h 0) (h 1) (h 2) (h 3) (h 4) (h 5) (h 6) (h 7))
                                                                    (fun b23 b24 b25 b26 b27 b28 b29 b30 ->
                                                                    if b23
                                                                    then 
                                                                    OpUnknown
                                                                    else 
                                                                    if b24
                                                                    then 
                                                                    OpUnknown
                                                                    else 
                                                                    if b25
                                                                    then 
                                                                    if b26
                                                                    then 
                                                                    if b27
                                                                    then 
                                                                    OpUnknown
                                                                    else 
                                                                    if b28
                                                                    then 
                                                                    if b29
                                                                    then 
                                                                    if b30
                                                                    then 
                                                                    OpUnknown
                                                                    else 
                                                                    (match s3 with
                                                                    | [] ->
                                                                    OpUnknown
                                                                    | a3::s4 ->
                                                                    (* If this appears, you're using Ascii internals. Please don't *)
 (fun f c ->
  let n = Char.code c in
  let h i = (n land (1 lsl i)) <> 0 in
  f (h 0) (h 1) (h 2) (h 3) (h 4) (h 5) (h 6) (h 7))
                                                                    (fun b31 b32 b33 b34 b35 b36 b37 b38 ->
                                                                    if b31
                                                                    then 
                                                                    if b32
                                                                    then 
                                                                    OpUnknown
                                                                    else 
                                                                    if b33
                                                                    then 
                                                                    OpUnknown
                                                                    else 
                                                                    if b34
                                                                    then 
                                                                    if b35
                                                                    then 
                                                                    if b36
                                                                    then 
                                                                    if b37
                                                                    then 
                                                                    if b38
                                                                    then 
                                                                    OpUnknown
                                                                    else 
                                                                    (match s4 with
                                                                    | [] ->
                                                                    (match 
                                                                    arg_expr
                                                                    this with
                                                                    | Some t2 ->
                                                                    OpCall
                                                                    (f0, t2,
                                                                    (arg_exprs
                                                                    rest))
                                                                    | None ->
                                                                    OpUnknown)
                                                                    | _::_ ->
                                                                    OpUnknown)
                                                                    else 
                                                                    OpUnknown
                                                                    else 
                                                                    OpUnknown
                                                                    else 
                                                                    OpUnknown
                                                                    else 
                                                                    OpUnknown
                                                                    else 
                                                                    OpUnknown)
                                                                    a3)
                                                                    else 
                                                                    OpUnknown
                                                                    else 
                                                                    OpUnknown
                                                                    else 
                                                                    OpUnknown
                                                                    else 
                                                                    OpUnknown)
                                                                    a2)
                                                                    else 
                                                                    OpUnknown
                                                                    else 
                                                                    OpUnknown
                                                                    else 
                                                                    OpUnknown)
                                                                    a1)
                                                                    else 
                                                                    OpUnknown
                                                                    else 
                                                                    OpUnknown
                                                                    else 
                                                                    OpUnknown)
                                                                    a0)
                                                                    else 
                                                                    OpUnknown
                                                                    else 
                                                                    OpUnknown
                                                    else OpUnknown)
                                                    a)
                                             | None -> OpUnknown)
                                          | _ :: _ -> OpUnknown)))
                                 | _ -> OpUnknown))
                           | _ :: _ ->
                             (match l0 with
                              | [] -> OpUnknown
                              | n1 :: l4 ->
                                let Node (t1, args) = n1 in
                                (match t1 with
                                 | Lst ->
                                   (match l4 with
                                    | [] -> OpUnknown
                                    | _ :: l5 ->
                                      (match l5 with
                                       | [] ->
                                         if is_ident f
                                         then OpBare (f,
                                                (plain_arg_exprs args))
                                         else OpUnknown
                                       | _ :: _ -> OpUnknown))
                                 | _ -> OpUnknown)))))
                  | _ ->
                    (match l0 with
                     | [] -> OpUnknown
                     | n0 :: l1 ->
                       let Node (t1, args) = n0 in
                       (match t1 with
                        | Lst ->
                          (match l1 with
                           | [] -> OpUnknown
                           | _ :: l2 ->
                             (match l2 with
                              | [] ->
                                if is_ident f
                                then OpBare (f, (plain_arg_exprs args))
                                else OpUnknown
                              | _ :: _ -> OpUnknown))
                        | _ -> OpUnknown)))
               | _ ->
                 (match l0 with
                  | [] -> OpUnknown
                  | n0 :: l1 ->
                    let Node (t1, args) = n0 in
                    (match t1 with
                     | Lst ->
                       (match l1 with
                        | [] -> OpUnknown
                        | _ :: l2 ->
                          (match l2 with
                           | [] ->
                             if is_ident f
                             then OpBare (f, (plain_arg_exprs args))
                             else OpUnknown
                           | _ :: _ -> OpUnknown))
                     | _ -> OpUnknown)))))
      | _ -> OpUnknown)
   | _ -> OpUnknown)

(** val temps_of : char list -> node list -> char list list **)

let temps_of vp es =
  flat_map (fun e ->
    match is_temp_ident vp e with
    | Some t -> t :: []
    | None -> []) es

(** val dedup_str : char list list -> char list list -> char list list **)

let rec dedup_str seen = function
| [] -> []
| x :: r ->
  if existsb (eqb1 x) seen
  then dedup_str seen r
  else x :: (dedup_str (x :: seen) r)

(** val list_str_eqb : char list list -> char list list -> bool **)

let rec list_str_eqb a b =
  match a with
  | [] -> (match b with
           | [] -> true
           | _ :: _ -> false)
  | x :: a' ->
    (match b with
     | [] -> false
     | y :: b' -> (&&) (eqb1 x y) (list_str_eqb a' b'))

(** val kept_before_effect :
    char list -> (char list * node) list -> node list -> bool **)

let rec kept_before_effect vp asg = function
| [] -> false
| e :: rest ->
  (||)
    (match is_temp_ident vp e with
     | Some _ -> false
     | None ->
       (&&) (is_ident e)
         (existsb (fun later ->
           match is_temp_ident vp later with
           | Some t ->
             (match assoc_str t asg with
              | Some rhs -> negb (inert (clean_rhs rhs))
              | None -> false)
           | None -> false) rest)) (kept_before_effect vp asg rest)

(** val temps_preorder : char list -> node -> char list list **)

let rec temps_preorder vp n0 =
  match is_temp_ident vp n0 with
  | Some t -> t :: []
  | None ->
    let Node (_, cs) = n0 in
    let rec go = function
    | [] -> []
    | x :: l' -> app (temps_preorder vp x) (go l')
    in go cs

(** val seq_order_issues :
    char list -> (char list * node) list -> node -> char list list **)

let seq_order_issues vp asg op =
  let assigned = map fst asg in
  let keep = fun l -> filter (fun x -> existsb (eqb1 x) assigned) l in
  let natural = keep (dedup_str [] (temps_preorder vp op)) in
  (match view_op op with
   | OpOperands es ->
     app
       (if list_str_eqb natural assigned
        then []
        else ('a'::('s'::('s'::('i'::('g'::('n'::('m'::('e'::('n'::('t'::('s'::('-'::('o'::('u'::('t'::('-'::('o'::('f'::('-'::('o'::('r'::('d'::('e'::('r'::[])))))))))))))))))))))))) :: [])
       (if kept_before_effect vp asg es
        then ('k'::('e'::('p'::('t'::('-'::('i'::('d'::('e'::('n'::('t'::('i'::('f'::('i'::('e'::('r'::('-'::('b'::('e'::('f'::('o'::('r'::('e'::('-'::('e'::('f'::('f'::('e'::('c'::('t'::[]))))))))))))))))))))))))))))) :: []
        else [])
   | OpCall (f, t, rest) ->
     let tf = temps_of vp (t :: []) in
     let ff = temps_of vp (f :: []) in
     let swapped =
       keep (dedup_str [] (app tf (app ff (temps_preorder vp op))))
     in
     let f_rhs =
       match is_temp_ident vp f with
       | Some x -> assoc_str x asg
       | None -> None
     in
     let f_static =
       match f_rhs with
       | Some other ->
         let Node (t0, cs) = other in
         (match t0 with
          | K (k, _, _) ->
            (match k with
             | KMember ->
               (match cs with
                | [] -> static_path0 other
                | obj :: l ->
                  (match l with
                   | [] -> static_path0 other
                   | _ :: l0 ->
                     (match l0 with
                      | [] ->
                        (match is_temp_ident vp obj with
                         | Some _ -> true
                         | None -> static_path0 obj)
                      | _ :: _ -> static_path0 other)))
             | _ -> static_path0 other)
          | _ -> static_path0 other)
       | None -> true
     in
     app
       (if list_str_eqb natural assigned
        then []
        else if list_str_eqb swapped assigned
             then if f_static
                  then []
                  else ('t'::('h'::('i'::('s'::('-'::('b'::('e'::('f'::('o'::('r'::('e'::('-'::('n'::('o'::('n'::('s'::('t'::('a'::('t'::('i'::('c'::('-'::('p'::('a'::('t'::('h'::[])))))))))))))))))))))))))) :: []
             else ('a'::('s'::('s'::('i'::('g'::('n'::('m'::('e'::('n'::('t'::('s'::('-'::('o'::('u'::('t'::('-'::('o'::('f'::('-'::('o'::('r'::('d'::('e'::('r'::[])))))))))))))))))))))))) :: [])
       (if kept_before_effect vp asg (t :: rest)
        then ('k'::('e'::('p'::('t'::('-'::('i'::('d'::('e'::('n'::('t'::('i'::('f'::('i'::('e'::('r'::('-'::('b'::('e'::('f'::('o'::('r'::('e'::('-'::('e'::('f'::('f'::('e'::('c'::('t'::[]))))))))))))))))))))))))))))) :: []
        else [])
   | OpBare (_, rest) ->
     app
       (if list_str_eqb natural assigned
        then []
        else ('a'::('s'::('s'::('i'::('g'::('n'::('m'::('e'::('n'::('t'::('s'::('-'::('o'::('u'::('t'::('-'::('o'::('f'::('-'::('o'::('r'::('d'::('e'::('r'::[])))))))))))))))))))))))) :: [])
       (if kept_before_effect vp asg rest
        then ('k'::('e'::('p'::('t'::('-'::('i'::('d'::('e'::('n'::('t'::('i'::('f'::('i'::('e'::('r'::('-'::('b'::('e'::('f'::('o'::('r'::('e'::('-'::('e'::('f'::('f'::('e'::('c'::('t'::[]))))))))))))))))))))))))))))) :: []
        else [])
   | OpUnknown -> [])

(** val order_issues : char list -> node -> char list list **)

let rec order_issues vp n0 =
  app
    (let Node (t, cs) = n0 in
     (match t with
      | K (k, _, _) ->
        (match k with
         | KParen ->
           (match cs with
            | [] -> []
            | n1 :: l ->
              let Node (t0, cs0) = n1 in
              (match t0 with
               | K (k0, _, _) ->
                 (match k0 with
                  | KSeq ->
                    (match cs0 with
                     | [] -> []
                     | n2 :: l0 ->
                       let Node (t1, es) = n2 in
                       (match t1 with
                        | Lst ->
                          (match l0 with
                           | [] ->
                             (match l with
                              | [] ->
                                (match split_injected vp es with
                                 | Some p ->
                                   let (asg, last) = p in
                                   (match asg with
                                    | [] -> []
                                    | _ :: _ ->
                                      (match hook_call last with
                                       | Some p0 ->
                                         let (_, l1) = p0 in
                                         (match l1 with
                                          | [] -> []
                                          | a0 :: _ ->
                                            (match arg_expr a0 with
                                             | Some op ->
                                               seq_order_issues vp asg op
                                             | None -> []))
                                       | None -> []))
                                 | None -> [])
                              | _ :: _ -> [])
                           | _ :: _ -> [])
                        | _ -> []))
                  | _ -> [])
               | _ -> []))
         | _ -> [])
      | _ -> []))
    (let Node (_, cs) = n0 in
     let rec go = function
     | [] -> []
     | c :: l' -> app (order_issues vp c) (go l')
     in go cs)

(** val prop_ok : node -> bool **)

let prop_ok prop =
  (||) (leaf prop)
    (let Node (t, cs) = prop in
     (match t with
      | K (k, _, _) ->
        (match k with
         | KComputed ->
           (match cs with
            | [] -> false
            | _ :: l -> (match l with
                         | [] -> true
                         | _ :: _ -> false))
         | _ -> false)
      | _ -> false))

(** val member_like_ok : node -> bool **)

let member_like_ok = function
| Node (t0, cs) ->
  (match t0 with
   | K (k, _, _) ->
     (match k with
      | KMember ->
        (match cs with
         | [] -> false
         | _ :: l ->
           (match l with
            | [] -> false
            | prop :: l0 ->
              (match l0 with
               | [] -> prop_ok prop
               | _ :: _ -> false)))
      | KSuperProp ->
        (match cs with
         | [] -> false
         | obj :: l ->
           (match l with
            | [] -> false
            | prop :: l0 ->
              (match l0 with
               | [] -> (&&) (leaf obj) (prop_ok prop)
               | _ :: _ -> false)))
      | _ -> false)
   | _ -> false)

(** val target_ok : node -> bool **)

let rec target_ok lhs =
  (||) ((||) (is_ident lhs) (member_like_ok lhs))
    (let Node (t, cs) = lhs in
     (match t with
      | K (k, _, _) ->
        (match k with
         | KParen ->
           (match cs with
            | [] -> false
            | e :: l -> (match l with
                         | [] -> target_ok e
                         | _ :: _ -> false))
         | _ -> false)
      | _ -> false))

(** val wf_node : node -> bool **)

let wf_node = function
| Node (t, cs) ->
  (match t with
   | K (k, _, _) ->
     (match k with
      | KAssign ->
        (match cs with
         | [] -> false
         | n1 :: l ->
           let Node (t0, cs0) = n1 in
           (match t0 with
            | Str op ->
              (match cs0 with
               | [] ->
                 (match l with
                  | [] -> false
                  | lhs :: l0 ->
                    (match l0 with
                     | [] -> false
                     | _ :: l1 ->
                       (match l1 with
                        | [] ->
                          if eqb1 op ('+'::('='::[]))
                          then target_ok lhs
                          else true
                        | _ :: _ -> false)))
               | _ :: _ -> false)
            | _ -> false))
      | KTaggedTpl ->
        (match cs with
         | [] -> true
         | _ :: l ->
           (match l with
            | [] -> true
            | _ :: l0 ->
              (match l0 with
               | [] -> true
               | _ :: l1 ->
                 (match l1 with
                  | [] -> true
                  | x :: l2 ->
                    (match l2 with
                     | [] -> is_kind KTpl x
                     | _ :: _ -> true)))))
      | KCall ->
        (match cs with
         | [] -> false
         | cx :: l ->
           (match l with
            | [] -> false
            | _ :: l0 ->
              (match l0 with
               | [] -> false
               | n1 :: l1 ->
                 let Node (t0, _) = n1 in
                 (match t0 with
                  | Lst ->
                    (match l1 with
                     | [] -> false
                     | targs :: l2 ->
                       (match l2 with
                        | [] -> (&&) (leaf cx) (leaf targs)
                        | _ :: _ -> false))
                  | _ -> false))))
      | KOptChain -> false
      | _ -> true)
   | _ -> true)

(** val wf_all : node -> bool **)

let rec wf_all n0 =
  (&&) (wf_node n0)
    (let Node (_, cs) = n0 in
     let rec go = function
     | [] -> true
     | c :: l' -> (&&) (wf_all c) (go l')
     in go cs)

(** val has_kind : kind -> node -> bool **)

let rec has_kind k n0 =
  (||) (is_kind k n0)
    (let Node (_, cs) = n0 in
     let rec go = function
     | [] -> false
     | c :: l' -> (||) (has_kind k c) (go l')
     in go cs)

(** val has_optchain : node -> bool **)

let has_optchain n0 =
  has_kind KOptChain n0

type value =
| VUndef
| VStr of char list
| VObj of nat

type expr =
| Lit of value
| Var of char list
| Tmp of nat
| Add of expr * expr
| CallE of expr * expr
| Par of expr
| Hoist2 of nat * expr * nat * expr * expr
| Hoist1 of nat * expr * expr
| Hook of expr * expr list

(** val is_triv : expr -> bool **)

let is_triv = function
| Lit _ -> true
| Var _ -> true
| _ -> false

(** val is_lit0 : expr -> bool **)

let is_lit0 = function
| Lit _ -> true
| _ -> false

type act =
| Keep0
| Stay
| Hoist

(** val left_act : expr -> expr -> act **)

let left_act l' r' =
  match l' with
  | Lit _ -> Keep0
  | Var _ -> if is_triv r' then Keep0 else Hoist
  | Add (_, _) -> Stay
  | _ -> Hoist

(** val right_act : expr -> expr -> act **)

let right_act l' = function
| Lit _ -> Keep0
| Var _ -> (match l' with
            | Add (_, _) -> Hoist
            | _ -> Keep0)
| Add (_, _) -> Stay
| _ -> Hoist

(** val wrap : (nat * expr) list -> expr -> expr **)

let wrap binds body =
  match binds with
  | [] -> body
  | p :: l ->
    let (n1, e1) = p in
    (match l with
     | [] -> Hoist1 (n1, e1, body)
     | p0 :: _ -> let (n2, e2) = p0 in Hoist2 (n1, e1, n2, e2, body))

(** val rw_add : expr -> expr -> nat -> expr * nat **)

let rw_add l' r' c2 =
  let la = left_act l' r' in
  let ra = right_act l' r' in
  (match la with
   | Keep0 ->
     let p = (l', []) in
     let (l2, bl) = p in
     (match ra with
      | Keep0 ->
        let p0 = (r', []) in
        let (r2, br) = p0 in
        let args =
          app (match la with
               | Stay -> []
               | _ -> l2 :: [])
            (match ra with
             | Keep0 -> r2 :: []
             | Stay -> []
             | Hoist -> r2 :: [])
        in
        if forallb is_lit0 args
        then ((Add (l', r')), c2)
        else ((wrap (app bl br) (Hook ((Add (l2, r2)), args))), c2)
      | Stay ->
        let p0 = (r', []) in
        let (r2, br) = p0 in
        let args =
          app (match la with
               | Stay -> []
               | _ -> l2 :: [])
            (match ra with
             | Keep0 -> r2 :: []
             | Stay -> []
             | Hoist -> r2 :: [])
        in
        if forallb is_lit0 args
        then ((Add (l', r')), c2)
        else ((wrap (app bl br) (Hook ((Add (l2, r2)), args))), c2)
      | Hoist ->
        let p0 = ((Tmp c2), ((c2, r') :: [])) in
        let c4 = S c2 in
        let (r2, br) = p0 in
        let args =
          app (match la with
               | Stay -> []
               | _ -> l2 :: [])
            (match ra with
             | Keep0 -> r2 :: []
             | Stay -> []
             | Hoist -> r2 :: [])
        in
        if forallb is_lit0 args
        then ((Add (l', r')), c2)
        else ((wrap (app bl br) (Hook ((Add (l2, r2)), args))), c4))
   | Stay ->
     let p = (l', []) in
     let (l2, bl) = p in
     (match ra with
      | Keep0 ->
        let p0 = (r', []) in
        let (r2, br) = p0 in
        let args =
          app (match la with
               | Stay -> []
               | _ -> l2 :: [])
            (match ra with
             | Keep0 -> r2 :: []
             | Stay -> []
             | Hoist -> r2 :: [])
        in
        if forallb is_lit0 args
        then ((Add (l', r')), c2)
        else ((wrap (app bl br) (Hook ((Add (l2, r2)), args))), c2)
      | Stay ->
        let p0 = (r', []) in
        let (r2, br) = p0 in
        let args =
          app (match la with
               | Stay -> []
               | _ -> l2 :: [])
            (match ra with
             | Keep0 -> r2 :: []
             | Stay -> []
             | Hoist -> r2 :: [])
        in
        if forallb is_lit0 args
        then ((Add (l', r')), c2)
        else ((wrap (app bl br) (Hook ((Add (l2, r2)), args))), c2)
      | Hoist ->
        let p0 = ((Tmp c2), ((c2, r') :: [])) in
        let c4 = S c2 in
        let (r2, br) = p0 in
        let args =
          app (match la with
               | Stay -> []
               | _ -> l2 :: [])
            (match ra with
             | Keep0 -> r2 :: []
             | Stay -> []
             | Hoist -> r2 :: [])
        in
        if forallb is_lit0 args
        then ((Add (l', r')), c2)
        else ((wrap (app bl br) (Hook ((Add (l2, r2)), args))), c4))
   | Hoist ->
     let p = ((Tmp c2), ((c2, l') :: [])) in
     let c3 = S c2 in
     let (l2, bl) = p in
     (match ra with
      | Keep0 ->
        let p0 = (r', []) in
        let (r2, br) = p0 in
        let args =
          app (match la with
               | Stay -> []
               | _ -> l2 :: [])
            (match ra with
             | Keep0 -> r2 :: []
             | Stay -> []
             | Hoist -> r2 :: [])
        in
        if forallb is_lit0 args
        then ((Add (l', r')), c2)
        else ((wrap (app bl br) (Hook ((Add (l2, r2)), args))), c3)
      | Stay ->
        let p0 = (r', []) in
        let (r2, br) = p0 in
        let args =
          app (match la with
               | Stay -> []
               | _ -> l2 :: [])
            (match ra with
             | Keep0 -> r2 :: []
             | Stay -> []
             | Hoist -> r2 :: [])
        in
        if forallb is_lit0 args
        then ((Add (l', r')), c2)
        else ((wrap (app bl br) (Hook ((Add (l2, r2)), args))), c3)
      | Hoist ->
        let p0 = ((Tmp c3), ((c3, r') :: [])) in
        let c4 = S c3 in
        let (r2, br) = p0 in
        let args =
          app (match la with
               | Stay -> []
               | _ -> l2 :: [])
            (match ra with
             | Keep0 -> r2 :: []
             | Stay -> []
             | Hoist -> r2 :: [])
        in
        if forallb is_lit0 args
        then ((Add (l', r')), c2)
        else ((wrap (app bl br) (Hook ((Add (l2, r2)), args))), c4)))

(** val rw : expr -> nat -> expr * nat **)

let rec rw e c =
  match e with
  | Add (l, r) ->
    let (l', c1) = rw l c in let (r', c2) = rw r c1 in rw_add l' r' c2
  | CallE (f, a) ->
    let (f', c1) = rw f c in let (a', c2) = rw a c1 in ((CallE (f', a')), c2)
  | Par x -> let (x', c1) = rw x c in ((Par x'), c1)
  | _ -> (e, c)

(** val temp_index_from :
    char list -> char list -> nat -> nat -> nat option **)

let rec temp_index_from vp name n0 = function
| O -> None
| S f ->
  if eqb1 name (append vp (n_to_string (N.of_nat n0)))
  then Some n0
  else temp_index_from vp name (S n0) f

(** val temp_index : char list -> char list -> nat option **)

let temp_index vp name =
  temp_index_from vp name O (S (S (S (S (S (S (S (S (S (S (S (S (S (S (S (S
    (S (S (S (S (S (S (S (S (S (S (S (S (S (S (S (S (S (S (S (S (S (S (S (S
    (S (S (S (S (S (S (S (S (S (S (S (S (S (S (S (S (S (S (S (S (S (S (S (S
    (S (S (S (S (S (S (S (S (S (S (S (S (S (S (S (S (S (S (S (S (S (S (S (S
    (S (S (S (S (S (S (S (S (S (S (S (S (S (S (S (S (S (S (S (S (S (S (S (S
    (S (S (S (S (S (S (S (S (S (S (S (S (S (S (S (S (S (S (S (S (S (S (S (S
    (S (S (S (S (S (S (S (S (S (S (S (S (S (S (S (S (S (S (S (S (S (S (S (S
    (S (S (S (S (S (S (S (S (S (S (S (S (S (S (S (S (S (S (S (S (S (S (S (S
    (S (S (S (S (S (S (S (S (S (S (S (S (S (S (S (S
    O))))))))))))))))))))))))))))))))))))))))))))))))))))))))))))))))))))))))))))))))))))))))))))))))))))))))))))))))))))))))))))))))))))))))))))))))))))))))))))))))))))))))))))))))))))))))))))))))))))))))

(** val plain_arg : node -> node option **)

let plain_arg = function
| Node (t, cs) ->
  (match t with
   | Obj ->
     (match cs with
      | [] -> None
      | n0 :: l ->
        let Node (t0, cs0) = n0 in
        (match t0 with
         | Nul ->
           (match cs0 with
            | [] ->
              (match l with
               | [] -> None
               | e :: l0 -> (match l0 with
                             | [] -> Some e
                             | _ :: _ -> None))
            | _ :: _ -> None)
         | _ -> None))
   | _ -> None)

(** val map_opt : ('a1 -> 'a2 option) -> 'a1 list -> 'a2 list option **)

let rec map_opt f = function
| [] -> Some []
| x :: r ->
  (match f x with
   | Some y ->
     (match map_opt f r with
      | Some ys -> Some (y :: ys)
      | None -> None)
   | None -> None)

(** val abstract : char list -> char list -> nat -> node -> expr option **)

let rec abstract vp hook fuel n0 =
  match fuel with
  | O -> None
  | S f ->
    let Node (t, cs) = n0 in
    (match t with
     | K (k, _, _) ->
       (match k with
        | KBin ->
          (match cs with
           | [] -> None
           | n1 :: l0 ->
             let Node (t0, cs0) = n1 in
             (match t0 with
              | Str s ->
                (match s with
                 | [] -> None
                 | a::s0 ->
                   (* If this appears, you're using Ascii internals. Please don't *)
 (fun f c ->
  let n = Char.code c in
  let h i = (n land (1 lsl i)) <> 0 in
  f (h 0) (h 1) (h 2) (h 3) (h 4) (h 5) (h 6) (h 7))
                     (fun b b0 b1 b2 b3 b4 b5 b6 ->
                     if b
                     then if b0
                          then if b1
                               then None
                               else if b2
                                    then if b3
                                         then None
                                         else if b4
                                              then if b5
                                                   then None
                                                   else if b6
                                                        then None
                                                        else (match s0 with
                                                              | [] ->
                                                                (match cs0 with
                                                                 | [] ->
                                                                   (match l0 with
                                                                    | [] ->
                                                                    None
                                                                    | l :: l1 ->
                                                                    (match l1 with
                                                                    | [] ->
                                                                    None
                                                                    | r :: l2 ->
                                                                    (match l2 with
                                                                    | [] ->
                                                                    (match 
                                                                    abstract
                                                                    vp hook f
                                                                    l with
                                                                    | Some a0 ->
                                                                    (match 
                                                                    abstract
                                                                    vp hook f
                                                                    r with
                                                                    | Some b7 ->
                                                                    Some (Add
                                                                    (a0, b7))
                                                                    | None ->
                                                                    None)
                                                                    | None ->
                                                                    None)
                                                                    | _ :: _ ->
                                                                    None)))
                                                                 | _ :: _ ->
                                                                   None)
                                                              | _::_ -> None)
                                              else None
                                    else None
                          else None
                     else None)
                     a)
              | _ -> None))
        | KCall ->
          (match cs with
           | [] -> None
           | _ :: l ->
             (match l with
              | [] -> None
              | callee :: l0 ->
                (match l0 with
                 | [] -> None
                 | n1 :: l1 ->
                   let Node (t0, args) = n1 in
                   (match t0 with
                    | Lst ->
                      (match l1 with
                       | [] -> None
                       | _ :: l2 ->
                         (match l2 with
                          | [] ->
                            (match hook_callee_name callee with
                             | Some name ->
                               if eqb1 name hook
                               then (match args with
                                     | [] -> None
                                     | first :: rest ->
                                       (match plain_arg first with
                                        | Some fe ->
                                          (match abstract vp hook f fe with
                                           | Some x ->
                                             (match map_opt (fun a ->
                                                      match plain_arg a with
                                                      | Some e ->
                                                        abstract vp hook f e
                                                      | None -> None) rest with
                                              | Some xs -> Some (Hook (x, xs))
                                              | None -> None)
                                           | None -> None)
                                        | None -> None))
                               else None
                             | None ->
                               (match args with
                                | [] -> None
                                | a :: l3 ->
                                  (match l3 with
                                   | [] ->
                                     (match plain_arg a with
                                      | Some ae ->
                                        (match abstract vp hook f callee with
                                         | Some fx ->
                                           (match abstract vp hook f ae with
                                            | Some ax -> Some (CallE (fx, ax))
                                            | None -> None)
                                         | None -> None)
                                      | None -> None)
                                   | _ :: _ -> None)))
                          | _ :: _ -> None))
                    | _ -> None))))
        | KParen ->
          (match cs with
           | [] -> None
           | e :: l ->
             (match l with
              | [] ->
                let Node (t0, cs0) = e in
                (match t0 with
                 | K (k0, _, _) ->
                   (match k0 with
                    | KSeq ->
                      (match cs0 with
                       | [] ->
                         (match abstract vp hook f e with
                          | Some x -> Some (Par x)
                          | None -> None)
                       | n1 :: l0 ->
                         let Node (t1, items) = n1 in
                         (match t1 with
                          | Lst ->
                            (match l0 with
                             | [] ->
                               (match items with
                                | [] -> None
                                | a1 :: l1 ->
                                  (match l1 with
                                   | [] -> None
                                   | a2 :: l2 ->
                                     (match l2 with
                                      | [] ->
                                        (match assign_pair a1 with
                                         | Some p ->
                                           let (t2, e1) = p in
                                           (match temp_index vp t2 with
                                            | Some n2 ->
                                              (match abstract vp hook f e1 with
                                               | Some x1 ->
                                                 (match abstract vp hook f a2 with
                                                  | Some b ->
                                                    Some (Hoist1 (n2, x1, b))
                                                  | None -> None)
                                               | None -> None)
                                            | None -> None)
                                         | None -> None)
                                      | body :: l3 ->
                                        (match l3 with
                                         | [] ->
                                           (match assign_pair a1 with
                                            | Some p ->
                                              let (t2, e1) = p in
                                              (match assign_pair a2 with
                                               | Some p0 ->
                                                 let (t3, e2) = p0 in
                                                 (match temp_index vp t2 with
                                                  | Some n2 ->
                                                    (match abstract vp hook f
                                                             e1 with
                                                     | Some x1 ->
                                                       (match temp_index vp t3 with
                                                        | Some n3 ->
                                                          (match abstract vp
                                                                   hook f e2 with
                                                           | Some x2 ->
                                                             (match abstract
                                                                    vp hook f
                                                                    body with
                                                              | Some b ->
                                                                Some (Hoist2
                                                                  (n2, x1,
                                                                  n3, x2, b))
                                                              | None -> None)
                                                           | None -> None)
                                                        | None -> None)
                                                     | None -> None)
                                                  | None -> None)
                                               | None -> None)
                                            | None -> None)
                                         | _ :: _ -> None))))
                             | _ :: _ ->
                               (match abstract vp hook f e with
                                | Some x -> Some (Par x)
                                | None -> None))
                          | _ ->
                            (match abstract vp hook f e with
                             | Some x -> Some (Par x)
                             | None -> None)))
                    | _ ->
                      (match abstract vp hook f e with
                       | Some x -> Some (Par x)
                       | None -> None))
                 | _ ->
                   (match abstract vp hook f e with
                    | Some x -> Some (Par x)
                    | None -> None))
              | _ :: _ -> None))
        | KIdent ->
          (match ident_sym n0 with
           | Some s ->
             if prefix vp s
             then (match temp_index vp s with
                   | Some i -> Some (Tmp i)
                   | None -> None)
             else Some (Var s)
           | None -> None)
        | KStr ->
          (match cs with
           | [] -> None
           | n1 :: _ ->
             let Node (t0, cs0) = n1 in
             (match t0 with
              | Str s ->
                (match cs0 with
                 | [] -> Some (Lit (VStr s))
                 | _ :: _ -> None)
              | _ -> None))
        | _ -> None)
     | _ -> None)

(** val value_eqb : value -> value -> bool **)

let value_eqb a b =
  match a with
  | VUndef -> (match b with
               | VUndef -> true
               | _ -> false)
  | VStr s -> (match b with
               | VStr t -> eqb1 s t
               | _ -> false)
  | VObj n0 -> (match b with
                | VObj m -> Nat.eqb n0 m
                | _ -> false)

(** val expr_eqb : expr -> expr -> bool **)

let rec expr_eqb a b =
  match a with
  | Lit v -> (match b with
              | Lit w -> value_eqb v w
              | _ -> false)
  | Var x -> (match b with
              | Var y -> eqb1 x y
              | _ -> false)
  | Tmp n0 -> (match b with
               | Tmp m -> Nat.eqb n0 m
               | _ -> false)
  | Add (l, r) ->
    (match b with
     | Add (l', r') -> (&&) (expr_eqb l l') (expr_eqb r r')
     | _ -> false)
  | CallE (f, x) ->
    (match b with
     | CallE (f', x') -> (&&) (expr_eqb f f') (expr_eqb x x')
     | _ -> false)
  | Par x -> (match b with
              | Par y -> expr_eqb x y
              | _ -> false)
  | Hoist2 (n1, e1, n2, e2, b0) ->
    (match b with
     | Hoist2 (m1, f1, m2, f2, c) ->
       (&&)
         ((&&) ((&&) ((&&) (Nat.eqb n1 m1) (expr_eqb e1 f1)) (Nat.eqb n2 m2))
           (expr_eqb e2 f2)) (expr_eqb b0 c)
     | _ -> false)
  | Hoist1 (n1, e1, b0) ->
    (match b with
     | Hoist1 (m1, f1, c) ->
       (&&) ((&&) (Nat.eqb n1 m1) (expr_eqb e1 f1)) (expr_eqb b0 c)
     | _ -> false)
  | Hook (x, xs) ->
    (match b with
     | Hook (y, ys) ->
       (&&) (expr_eqb x y)
         (let rec go l l' =
            match l with
            | [] -> (match l' with
                     | [] -> true
                     | _ :: _ -> false)
            | p :: r ->
              (match l' with
               | [] -> false
               | q :: s -> (&&) (expr_eqb p q) (go r s))
          in go xs ys)
     | _ -> false)

(** val last_return : node -> node option **)

let rec last_return n0 = match n0 with
| Node (_, cs) ->
  let below =
    let rec go l acc1 =
      match l with
      | [] -> acc1
      | c :: l' ->
        go l' (match last_return c with
               | Some r -> Some r
               | None -> acc1)
    in go cs None
  in
  (match below with
   | Some r -> Some r
   | None ->
     let Node (t0, cs0) = n0 in
     (match t0 with
      | K (k, _, _) ->
        (match k with
         | KReturn ->
           (match cs0 with
            | [] -> None
            | arg :: l -> (match l with
                           | [] -> Some arg
                           | _ :: _ -> None))
         | _ -> None)
      | _ -> None))

type tie_result =
| TieNotCore
| TieNoOutput
| TieAgree
| TieDiffer

(** val sem_tie : char list -> char list -> node -> node -> tie_result **)

let sem_tie vp hook ast_in ast_out =
  match last_return ast_in with
  | Some ein ->
    (match abstract vp hook (S (node_depth ein)) ein with
     | Some e ->
       (match last_return ast_out with
        | Some eout ->
          (match abstract vp hook (S (node_depth eout)) eout with
           | Some o ->
             if expr_eqb (fst (rw e O)) o then TieAgree else TieDiffer
           | None -> TieDiffer)
        | None -> TieNoOutput)
     | None -> TieNotCore)
  | None -> TieNotCore
