(** * Literal collection (src/visitor/literal_visitor.rs) on the rose tree: the visitor's walk, with
    its skip rules, its length window (generated from the source) and its de-duplication by span. *)
From Coq Require Import String List NArith Bool.
From IastRw Require Import Ast Generated.
Import ListNotations.
Local Open Scope string_scope.
Local Open Scope list_scope.

Record lit_entry := { le_value : string; le_span : sp; le_ident : option string }.

Definition str_value (n : node) : option string :=
  match n with
  | Node (K KStr _ _) (Node (Str v) [] :: _) => Some v
  | _ => None
  end.

(** [add_literal]: the length window (bytes) and the two callee names are the DOCUMENTED ones, written here; that the
    code carries the same (the predicate and the names regenerated from literal_visitor.rs on every run) is
    Properties/C14.v, [C14_window_is_documented] / [C14_skipped_callees_are_documented]. *)
Definition documented_len_ok (len : N) : bool := andb (N.ltb 10 len) (N.leb len 256).
Definition documented_require : string := "require".
Definition documented_regexp : string := "RegExp".

Definition entry_of (n : node) (ident : option string) : list lit_entry :=
  match str_value n with
  | Some v => if documented_len_ok (N.of_nat (String.length v))
              then [{| le_value := v; le_span := span_of n; le_ident := ident |}] else []
  | None => []
  end.

Definition first_arg_is_plain_literal (args : list node) : bool :=
  match args with
  | Node Obj [Node Nul []; e] :: _ => is_lit e
  | _ => false
  end.

Definition callee_named (callee : node) (name : string) : bool :=
  match ident_sym callee with Some s => is_ident callee && String.eqb s name | None => false end.

(** [visit_expr]'s two early returns. *)
Definition skipped (n : node) : bool :=
  match n with
  | Node (K KCall _ _) [_; callee; Node Lst args; _] =>
      callee_named callee documented_require && first_arg_is_plain_literal args
  | Node (K KNew _ _) [_; callee; Node Lst args; _] =>
      callee_named callee documented_regexp && first_arg_is_plain_literal args
  | _ => false
  end.

Definition binding_name (id : node) : option string :=
  if is_ident id then ident_sym id else None.

Definition here (n : node) : list lit_entry :=
  match n with
  | Node (K KVarDeclarator _ _) (id :: init :: _) => entry_of init (binding_name id)
  | Node (K KKeyValue _ _) [key; value] => entry_of value (ident_name_sym key)
  | Node (K KStr _ _) _ => entry_of n None
  | _ => []
  end.

(** A [Str] that is not an expression is not a literal for the visitor ([visit_lit] is not reached):
    module sources and names, and string property / member keys. *)
Definition not_an_expression (parent : tag) (index : nat) (c : node) : bool :=
  is_kind KStr c &&
  match parent with
  | K KImportDecl _ _ | K KExportAll _ _ | K KExportNamed _ _ => true
  | K (KOther "ImportSpecifier") _ _ | K (KOther "ExportSpecifier") _ _
  | K (KOther "ExportNamespaceSpecifier") _ _ | K (KOther "ExportDefaultSpecifier") _ _ => true
  | K KKeyValue _ _ | K KMethodProp _ _ | K KGetterProp _ _ | K KSetterProp _ _
  | K KClassMethod _ _ | K KClassProp _ _ | K KKeyValuePat _ _ | K (KOther "AutoAccessor") _ _ => Nat.eqb index 0
  | _ => false
  end.

(** All entries in visit order (a literal that is an initialiser is met twice: first with its name). *)
Fixpoint walk (n : node) : list lit_entry :=
  match n with
  | Node t cs =>
      if skipped (Node t cs) then []
      else here (Node t cs) ++
           (fix go (i : nat) (l : list node) : list lit_entry :=
              match l with
              | [] => []
              | c :: l' => (if not_an_expression t i c then [] else walk c) ++ go (S i) l'
              end) 0 cs
  end.

Definition sp_eqb (a b : sp) : bool := N.eqb (fst a) (fst b) && N.eqb (snd a) (snd b).
Definition same_entry (a b : lit_entry) : bool := String.eqb (le_value a) (le_value b) && sp_eqb (le_span a) (le_span b).

(** HashMap<value, HashSet<span>>: the first insertion for a (value, span) wins. *)
Fixpoint dedup (seen acc : list lit_entry) (l : list lit_entry) : list lit_entry :=
  match l with
  | [] => rev acc
  | e :: l' => if existsb (same_entry e) seen then dedup seen acc l' else dedup (e :: seen) (e :: acc) l'
  end.

Definition collect (enabled : bool) (prog : node) : option (list lit_entry) :=
  if enabled then Some (dedup [] [] (walk prog)) else None.
