(** * C04 -- required instrumentation sites (specification side: a positional walk of the INPUT
    that knows the property text, not the visitor's overrides, contexts or counters).

    A site is keyed by a source span that survives in the output:
    the operation's own span for [+], [+=] and templates; the span of the method-name token
    for calls (the call's own span is lost for optional chains).  [hook_keys] reads the same key
    off each hook call of an output. *)
From Coq Require Import String List NArith Bool.
From IastRw Require Import Ast Generated HookSites.
Import ListNotations.
Local Open Scope string_scope.
Local Open Scope list_scope.

Record site_cfg := {
  sc_plus : bool;                 (* [+] / [+=] enabled *)
  sc_tpl : bool;                  (* templates enabled *)
  sc_methods : list string;       (* configured (non-operator) method source names *)
  sc_lit_callers : list string    (* methods instrumented on string-literal receivers *)
}.

(** The methods the property documents as covered on a string-literal receiver -- written here, in the specification,
    not taken from the code (Properties/C04.v proves that the list regenerated from csi_methods.rs is this one). *)
Definition documented_lit_callers : list string := ["concat"; "replace"; "replaceAll"; "padEnd"; "padStart"; "repeat"].

Record site := {
  s_key : sp;
  s_what : string;       (* "+", "+=", "Tpl" or the method name *)
  s_class : string       (* "" = required; otherwise the known-finding class that excuses it *)
}.

Record wctx := {
  in_block : bool;        (* inside a block statement / function body *)
  excluded : bool;        (* under delete, in arrow parameters, in a template with a literal substitution *)
  cls : string            (* known class inherited from the context ("" if none) *)
}.

Definition mem_str (s : string) (l : list string) : bool := existsb (String.eqb s) l.

Fixpoint lit_sum (e : node) : bool :=
  match e with
  | Node (K KBin _ _) [Node (Str "+") []; l; r] => lit_sum l && lit_sum r
  | _ => is_lit e
  end.

Definition tpl_all_nonlit (es : list node) : bool :=
  match es with [] => false | _ => forallb (fun e => negb (is_lit e)) es end.
Definition tpl_has_lit (es : list node) : bool := existsb is_lit es.

Definition undefined_or_null (e : node) : bool :=
  match ident_sym e with Some s => String.eqb s "undefined" || String.eqb s "null" | None => false end.
Definition arg_lit_like (a : node) : bool :=
  match arg_expr a with Some e => is_lit e || undefined_or_null e | None => false end.

(** What the property text requires of one node (context aside). *)
Definition site_here (c : site_cfg) (n : node) : list (sp * string * string) :=
  match n with
  | Node (K KBin lo hi) [Node (Str "+") []; l; r] =>
      if sc_plus c && negb (lit_sum l && lit_sum r) then [((lo, hi), "+", "")] else []
  | Node (K KAssign lo hi) [Node (Str "+=") []; _; _] =>
      if sc_plus c then [((lo, hi), "+=", "")] else []
  | Node (K KTpl lo hi) [Node Lst es; _] =>
      if sc_tpl c && tpl_all_nonlit es then [((lo, hi), "Tpl", "")] else []
  | Node (K KCall _ _) [_; Node (K KMember _ _) [obj; prop]; Node Lst args; _] =>
      match ident_name_sym prop with
      | Some m =>
          if mem_str m (sc_methods c) then
            (* recv.m(..) *)
            let ok :=
              if is_lit obj then mem_str m (sc_lit_callers c)
              else if is_ident obj || is_kind KCall obj || is_kind KParen obj || is_kind KArray obj then true
              else match obj with
                   | Node (K KMember _ _) [_; p2] =>
                       negb (match ident_name_sym p2 with Some "prototype" => true | _ => false end)
                   | _ => false
                   end in
            if ok then [(span_of prop, m, "")] else []
          else if (String.eqb m "call" || String.eqb m "apply") then
            (* P.m2.call|apply(this, ..) *)
            match obj with
            | Node (K KMember _ _) [_; p2] =>
                match ident_name_sym p2 with
                | Some m2 =>
                    if mem_str m2 (sc_methods c) then
                      match args with
                      | [] => []
                      | this :: rest =>
                          if arg_is_spread this then [(span_of p2, m2, "")]
                          else
                            let this_lit := match arg_expr this with Some t => is_lit t | None => false end in
                            if this_lit && (negb (mem_str m2 (sc_lit_callers c)) || forallb arg_lit_like rest)
                            then []
                            else if String.eqb m "apply" then
                              match rest with
                              | second :: _ =>
                                  match arg_expr second with
                                  | Some (Node (K KArray _ _) [Node Lst elems]) =>
                                      if this_lit && forallb (fun el => match el with
                                                                        | Node Nul _ => false
                                                                        | _ => arg_lit_like el
                                                                        end) (skipn 1 elems)
                                      then []    (* literal this with (almost) all-literal array *)
                                      else [(span_of p2, m2, "")]
                                  | _ =>
                                      if arg_is_spread second then [(span_of p2, m2, "")]
                                      else [(span_of p2, m2, "apply-nonarray-args")]
                                  end
                              | [] => [(span_of p2, m2, "apply-nonarray-args")]
                              end
                            else [(span_of p2, m2, "")]
                      end
                    else []
                | None => []
                end
            | _ => []
            end
          else []
      | None => []
      end
  | Node (K KOptChain _ _) [Node (Bln false) [];
                            Node (K KCall _ _) [_; Node (K KOptChain _ _) [Node (Bln true) []; Node (K KMember _ _) [obj; prop]]; _; _]] =>
      (* recv?.m(..) *)
      match ident_name_sym prop with
      | Some m => if mem_str m (sc_methods c) && negb (is_lit obj) then [(span_of prop, m, "")] else []
      | None => []
      end
  | _ => []
  end.

Definition with_block (w : wctx) : wctx := {| in_block := true; excluded := excluded w; cls := cls w |}.
Definition with_excluded (w : wctx) : wctx := {| in_block := in_block w; excluded := true; cls := cls w |}.
Definition with_cls (s : string) (w : wctx) : wctx := {| in_block := in_block w; excluded := excluded w; cls := s |}.

Fixpoint sites_walk (c : site_cfg) (w : wctx) (n : node) : list site :=
  let here :=
    if excluded w then []
    else if in_block w || negb (String.eqb (cls w) "")
    then map (fun x => match x with
                       | (k, what, cl) => {| s_key := k; s_what := what;
                                             s_class := if String.eqb cl "" then cls w else cl |}
                       end) (site_here c n)
    else [] in
  let go (w' : wctx) :=
    (fix go (l : list node) : list site :=
       match l with [] => [] | x :: l' => sites_walk c w' x ++ go l' end) in
  here ++
  match n with
  | Node (K KBlock _ _) cs => go (with_block w) cs
  | Node (K KOptChain _ _) [Node (Bln true) []; Node (K KCall _ _) ccs] =>
      (* optional invocation  recv.m?.(..)  is a documented exclusion: the call itself is not a
         site, its callee and arguments are ordinary code *)
      go w ccs
  | Node (K KUnary _ _) (Node (Str "delete") [] :: cs) => go (with_excluded w) cs
  | Node (K KArrow _ _) [cx; params; body; asy; gen; tp; rt] =>
      sites_walk c (with_excluded w) params ++
      (* a concise body is a function body, wherever the arrow stands *)
      sites_walk c (if is_kind KBlock body then w else with_block w) body
  | Node (K KTpl _ _) [Node Lst es; quasis] =>
      if sc_tpl c && tpl_has_lit es then go (with_excluded w) es else go w es
  | Node (K KTaggedTpl _ _) [cx; tg; tp; Node (K KTpl _ _) [Node Lst es; quasis]] =>
      (* a tagged template is not a template operation; its substitutions are ordinary code *)
      sites_walk c w tg ++ go w es
  | Node _ cs => go w cs
  end.

Definition required_sites (c : site_cfg) (prog : node) : list site :=
  sites_walk c {| in_block := false; excluded := false; cls := "" |} prog.

(** ** Keys of the hook sites of an output *)
Definition key_of_operation (op : node) (env : list node) : option sp :=
  match op with
  | Node (K KBin lo hi) _ => Some (lo, hi)
  | Node (K KTpl lo hi) _ => Some (lo, hi)
  | Node (K KCall _ _) [_; Node (K KMember _ _) [obj; _]; _; _] =>
      match ident_sym obj with
      | Some tmp =>
          match lookup_assign tmp env with
          | Some (Node (K KMember _ _) [_; prop]) => Some (span_of prop)
          | _ => None
          end
      | None => None
      end
  | _ => None
  end.

Fixpoint hook_keys_aux (env : list node) (n : node) : list sp :=
  match n with
  | Node t cs =>
      (match hook_call (Node t cs) with
       | Some (_, args) =>
           match first_arg args with
           | Some op => match key_of_operation op env with Some k => [k] | None => [] end
           | None => []
           end
       | None => []
       end) ++
      match t, cs with
      | K KSeq _ _, [Node Lst es] =>
          (fix go (l : list node) : list sp :=
             match l with [] => [] | x :: l' => hook_keys_aux es x ++ go l' end) es
      | _, _ =>
          (fix go (l : list node) : list sp :=
             match l with [] => [] | x :: l' => hook_keys_aux env x ++ go l' end) cs
      end
  end.

Definition hook_keys (out : node) : list sp := hook_keys_aux [] out.

Definition sp_eqb (a b : sp) : bool := N.eqb (fst a) (fst b) && N.eqb (snd a) (snd b).

(** Required sites that have no hook in the output. *)
Definition missing_sites (c : site_cfg) (pin pout : node) : list site :=
  let keys := hook_keys pout in
  filter (fun s => negb (existsb (sp_eqb (s_key s)) keys)) (required_sites c pin).
