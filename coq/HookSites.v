(** * Hook call sites of a tree (specification side: knows nothing of the rewriter).

    A hook site is a call whose callee is the member expression [_ddiast.<name>].  Its tag is the
    operation it wraps, read off the first argument: [+] for a binary sum, [+=] when the hook is
    the right-hand side of an assignment with the very same span (the shape produced for
    compound assignment), [Tpl] for a template, and the method's source name for calls. *)
From Coq Require Import String List NArith Bool Arith.
From IastRw Require Import Ast Generated.
Import ListNotations.
Local Open Scope string_scope.
Local Open Scope list_scope.

Definition hook_callee_name (callee : node) : option string :=
  match callee with
  | Node (K KMember _ _)
         [Node (K KIdent _ _) (_ :: Node (Str ns) [] :: _); Node (K KIdentName _ _) [Node (Str name) []]] =>
      if String.eqb ns gen_DD_GLOBAL_NAMESPACE then Some name else None
  | _ => None
  end.

(** [Some (name, args)] when [n] is a hook call. *)
Definition hook_call (n : node) : option (string * list node) :=
  match n with
  | Node (K KCall _ _) [_; callee; Node Lst args; _] =>
      match hook_callee_name callee with
      | Some name => Some (name, args)
      | None => None
      end
  | _ => None
  end.

Definition is_hook (n : node) : bool :=
  match hook_call n with Some _ => true | None => false end.

(** Number of hook sites: an additive measure over the tree. *)
Fixpoint hook_count (n : node) : nat :=
  match n with
  | Node t cs =>
      if leaf (Node t cs) || is_ident (Node t cs) then 0
      else
        (if is_hook (Node t cs) then 1 else 0) +
        (fix go (l : list node) : nat :=
           match l with [] => 0 | c :: l' => hook_count c + go l' end) cs
  end.

Definition hook_count_list (l : list node) : nat :=
  fold_right (fun c acc => hook_count c + acc) 0 l.

(** Names used after [_ddiast.] anywhere in the tree, in pre-order. *)
Fixpoint hook_names (n : node) : list string :=
  match n with
  | Node t cs =>
      (match hook_call (Node t cs) with Some (name, _) => [name] | None => [] end) ++
      (fix go (l : list node) : list string :=
         match l with [] => [] | c :: l' => hook_names c ++ go l' end) cs
  end.

(** ** Tags *)
(** The temporary-to-expression assignments of a sequence, for looking up what a callee temp holds. *)
Definition assign_pair (n : node) : option (string * node) :=
  match n with
  | Node (K KAssign _ _) [Node (Str "=") []; lhs; rhs] =>
      match ident_sym lhs with Some s => Some (s, rhs) | None => None end
  | _ => None
  end.

Fixpoint lookup_assign (name : string) (l : list node) : option node :=
  match l with
  | [] => None
  | x :: l' =>
      match assign_pair x with
      | Some (s, rhs) => if String.eqb s name then Some rhs else lookup_assign name l'
      | None => lookup_assign name l'
      end
  end.

(** The operation tags the property documents ([+], [+=], [Tpl]; a method call is tagged with the method's source name):
    written here, in the specification -- Properties/C15.v proves that the code's constants are these. *)
Definition documented_add_tag : string := "+".
Definition documented_add_assign_tag : string := "+=".
Definition documented_tpl_tag : string := "Tpl".

(** The tag of a hook call whose first argument is [op]; [env] = the assignments of the enclosing
    sequence; [asg] = the hook is the whole right-hand side of an assignment of the same span. *)
Definition tag_of_operation (op : node) (env : list node) (same_span_assign : bool) : string :=
  match op with
  | Node (K KBin _ _) _ => if same_span_assign then documented_add_assign_tag else documented_add_tag
  | Node (K KTpl _ _) _ => documented_tpl_tag
  | Node (K KCall _ _) [_; callee; _; _] =>
      match callee with
      | Node (K KMember _ _) [obj; _] =>
          (* tmp.call / tmp.apply: the temporary holds  recv.method  or  X.prototype.method *)
          match ident_sym obj with
          | Some tmp =>
              match lookup_assign tmp env with
              | Some (Node (K KMember _ _) [_; prop]) =>
                  match ident_name_sym prop with Some m => m | None => "?" end
              | _ => "?"
              end
          | None => "?"
          end
      | _ => match ident_sym callee with Some f => f | None => "?" end
      end
  | _ => "?"
  end.

Definition first_arg (args : list node) : option node :=
  match args with a :: _ => arg_expr a | [] => None end.

(** Pre-order walk carrying the innermost sequence's expressions and whether the node is the
    right-hand side of an assignment (with that assignment's span). *)
Fixpoint hook_tags_aux (vp : string) (env : list node) (asg : option sp) (n : node) : list string :=
  match n with
  | Node t cs =>
      let here :=
        match hook_call (Node t cs) with
        | Some (_, args) =>
            match first_arg args with
            | Some op =>
                let same := match asg with
                            | Some s => (N.eqb (fst s) (fst (span_of (Node t cs)))
                                         && N.eqb (snd s) (snd (span_of (Node t cs))))%bool
                            | None => false
                            end in
                [tag_of_operation op env same]
            | None => ["?"]
            end
        | None => []
        end in
      let rest :=
        match t, cs with
        | K KSeq _ _, [Node Lst es] =>
            (fix go (l : list node) : list string :=
               match l with
               | [] => []
               | [c] => hook_tags_aux vp es asg c      (* the value of the sequence *)
               | c :: l' => hook_tags_aux vp es None c ++ go l'
               end) es
        | K KAssign lo hi, [op; lhs; rhs] =>
            (* the right-hand side of an assignment to a user target (not to an injected temporary) *)
            let user_target := match ident_sym lhs with
                               | Some s => negb (String.prefix vp s)
                               | None => true
                               end in
            hook_tags_aux vp env None lhs
            ++ hook_tags_aux vp env (if user_target then Some (lo, hi) else None) rhs
        | K KParen _ _, [e] => hook_tags_aux vp env asg e
        | _, _ =>
            (fix go (l : list node) : list string :=
               match l with [] => [] | c :: l' => hook_tags_aux vp env None c ++ go l' end) cs
        end in
      here ++ rest
  end.

(** [vp] is the reserved prefix of injected temporaries ([__datadog_<p>_]). *)
Definition hook_tags (vp : string) (n : node) : list string := hook_tags_aux vp [] None n.

(** Sorted multiset view for comparisons. *)
Fixpoint count_occ_str (s : string) (l : list string) : nat :=
  match l with
  | [] => 0
  | x :: l' => (if String.eqb s x then 1 else 0) + count_occ_str s l'
  end.

(** Hook sites with their spans (the span of a hook call is the span of the operation it wraps;
    calls that came out of an optional chain carry the dummy span). *)
Fixpoint hook_sites (n : node) : list (string * (N * N)) :=
  match n with
  | Node t cs =>
      (match hook_call (Node t cs) with
       | Some (name, _) => [(name, span_of (Node t cs))]
       | None => []
       end) ++
      (fix go (l : list node) : list (string * (N * N)) :=
         match l with [] => [] | c :: l' => hook_sites c ++ go l' end) cs
  end.

(** ** References to the hook namespace: a purely additive measure (one per hook call site in an
    output of the rewriter, where [_ddiast] is only ever emitted as the object of a hook callee). *)
Definition is_ns_ident (n : node) : bool :=
  match n with
  | Node (K KIdent _ _) (_ :: Node (Str s) [] :: _) => String.eqb s gen_DD_GLOBAL_NAMESPACE
  | _ => false
  end.

(** The measure is defined once, generically: [kappa] is the weight of one reference, and a block
    statement or an arrow function may be given a weight of its own by [stop] (instead of the sum over
    its children), and so may a member expression on the hook namespace (which is how a measure can look at the
    NAME that is dereferenced: P_Names.v); the
    count of references is the instance without stops and with weight one.  The other instance used
    (P_CountProgram.v) weighs a nested block by whether it still is a clean, well-formed input. *)
(** A member expression whose object is the hook namespace: [_ddiast.<name>] (or [_ddiast[..]]). *)
Definition is_ns_member (n : node) : bool :=
  match n with
  | Node (K KMember _ _) (obj :: _) => is_ns_ident obj
  | _ => false
  end.

Definition stop_kind (n : node) : bool := is_kind KBlock n || is_kind KArrow n || is_ns_member n.

Section Meas.
  Variable stop : node -> option nat.
  Variable kappa : nat.

  Fixpoint meas (n : node) : nat :=
    match n with
    | Node t cs =>
        if is_ident (Node t cs) then (if is_ns_ident (Node t cs) then kappa else 0)
        else if leaf (Node t cs) then 0
        else
          match (if stop_kind (Node t cs) then stop (Node t cs) else None) with
          | Some w => w
          | None =>
              (fix go (l : list node) : nat :=
                 match l with [] => 0 | c :: l' => meas c + go l' end) cs
          end
    end.

  Definition meas_list (l : list node) : nat :=
    fold_right (fun c acc => meas c + acc) 0 l.
End Meas.

Definition no_stop : node -> option nat := fun _ => None.
Definition ns_count : node -> nat := meas no_stop 1.
Definition ns_count_list : list node -> nat := meas_list no_stop 1.

(** ** Which names are dereferenced on the hook namespace (C05).  The measure [badname ok] weighs a member expression
    [_ddiast.<name>] by whether [name] is acceptable ([_ddiast[..]] is not); everything else weighs nothing. *)
Definition name_weight (ok : string -> bool) (n : node) : nat :=
  match n with
  | Node (K KMember _ _) [_; prop] =>
      match ident_name_sym prop with
      | Some x => if ok x then 0 else 1
      | None => 1
      end
  | _ => 1
  end.

Definition stop_names (ok : string -> bool) (n : node) : option nat :=
  if is_ns_member n then Some (name_weight ok n) else None.

Definition badname (ok : string -> bool) : node -> nat := meas (stop_names ok) 0.
Definition badname_list (ok : string -> bool) : list node -> nat := meas_list (stop_names ok) 0.


(** The members on the namespace, at any depth (identifiers and leaves have no expression children). *)
Fixpoint ns_members (n : node) : list node :=
  match n with
  | Node t cs =>
      if is_ident (Node t cs) || leaf (Node t cs) then []
      else
        (if is_ns_member (Node t cs) then [Node t cs] else []) ++
        (fix go (l : list node) : list node := match l with [] => [] | c :: l' => ns_members c ++ go l' end) cs
  end.

