(** * Local correctness of the operand handling and of the binary transformation, for arbitrary
    operand trees, accumulators and provider states (C03, C04, C06). *)
From Coq Require Import String List NArith Bool Lia.
From IastRw Require Import Ast Generated Config Model HookSites Erase Shapes P_Hooks.
Import ListNotations.

Lemma tag_eqb_refl t : tag_eqb t t = true.
Proof. unfold tag_eqb. destruct (tag_eq_dec t t); [reflexivity | contradiction]. Qed.

Lemma node_eqb_refl : forall n, node_eqb n n = true.
Proof.
  apply node_ind'. intros t cs H. simpl. rewrite tag_eqb_refl. simpl.
  induction H as [|x l Hx Hl IH]; [reflexivity|]. rewrite Hx. simpl. exact IH.
Qed.

(** ** Allocation of temporaries *)
Definition is_temp_of (c : config) (n : N) (id : node) : Prop := id = mk_ident DUMMY (temp_name c n).

Lemma register_ident_in name p : In name (p_idents (register_ident name p)).
Proof.
  unfold register_ident. destruct (existsb (String.eqb name) (p_idents p)) eqn:E.
  - apply existsb_exists in E. destruct E as (x & Hx & He). apply String.eqb_eq in He. subst x. exact Hx.
  - simpl. apply in_or_app. right. left. reflexivity.
Qed.

Lemma register_ident_incl name p x : In x (p_idents p) -> In x (p_idents (register_ident name p)).
Proof.
  unfold register_ident. destruct (existsb (String.eqb name) (p_idents p)); [auto|].
  simpl. intros H. apply in_or_app. left. exact H.
Qed.

Lemma register_ident_ctr name p : p_ctr (register_ident name p) = p_ctr p.
Proof. unfold register_ident. destruct (existsb _ _); reflexivity. Qed.

(** [get_temporal]: a literal gets nothing; anything else gets the temporary numbered by the
    counter, which is declared (in [p_idents]), assigned once ([tmp = operand]) and the counter
    moves past it. *)
Lemma get_temporal_spec c operand span ik a p id a' p' :
  get_temporal c operand span ik a p = (id, a', p') ->
  (is_lit operand = true /\ id = None /\ a' = a /\ p' = p) \/
  (is_lit operand = false /\
   id = Some (mk_ident DUMMY (temp_name c (p_ctr p))) /\
   a_assigns a' = a_assigns a ++ [mk_assign span "=" (mk_binding_ident DUMMY (temp_name c (p_ctr p))) (assign_right operand ik)] /\
   a_args a' = a_args a /\
   p_ctr p' = N.succ (p_ctr p) /\
   In (temp_name c (p_ctr p)) (p_idents p') /\
   (forall x, In x (p_idents p) -> In x (p_idents p'))).
Proof.
  unfold get_temporal. destruct (is_lit operand) eqn:L.
  - intros H; inversion H; subst. left. auto.
  - unfold next_ident. cbn [fst snd]. intros H; inversion H; subst. right.
    repeat split; try reflexivity.
    + rewrite register_ident_ctr. reflexivity.
    + apply register_ident_in.
    + intros x Hx. apply register_ident_incl. exact Hx.
Qed.

(** The argument pushed for an operand that ends up as [e'] in the operation. *)
Definition is_plus_bin (e : node) : bool :=
  match bin_op e with Some op => String.eqb op "+" | None => false end.

Lemma get_ident_spec c operand span ik a p id a' p' :
  get_ident c operand span ik a p = (id, a', p') ->
  let e' := match id with Some i => i | None => operand end in
  a_args a' = a_args a ++ [expr_or_spread e' ik] /\
  (is_lit e' = true \/ is_ident e' = true) /\
  (forall x, In x (p_idents p) -> In x (p_idents p')) /\
  (N.le (p_ctr p) (p_ctr p')).
Proof.
  unfold get_ident. destruct (get_temporal c operand span ik a p) as [[i a1] p1] eqn:E.
  intros H; inversion H; subst. cbn zeta.
  apply get_temporal_spec in E. destruct E as [(L & -> & -> & ->) | (L & -> & A1 & A2 & C1 & I1 & I2)].
  - simpl. repeat split; auto. lia.
  - simpl. rewrite A2. repeat split; auto. rewrite C1. lia.
Qed.

(** [replace_expr] without array expansion: either the operand is a [+] left in place (nothing is
    passed for it), or exactly one argument is pushed and it is the very expression that stands in
    the operation -- a literal, a kept identifier or the fresh temporary. *)
Lemma replace_expr_spec c e im span ik a p e' a' p' :
  replace_expr c e im span ik false a p = (e', a', p') ->
  (is_plus_bin e = true /\ e' = e /\ a' = a /\ p' = p) \/
  (is_plus_bin e = false /\
   a_args a' = a_args a ++ [expr_or_spread e' ik] /\
   (is_lit e' = true \/ is_ident e' = true) /\
   (is_lit e' = is_lit e) /\
   (forall x, In x (p_idents p) -> In x (p_idents p'))).
Proof.
  assert (RD : forall e0 a0 p0 e1 a1 p1,
             replace_default c e0 span ik a0 p0 = (e1, a1, p1) -> is_lit e0 = false ->
             a_args a1 = a_args a0 ++ [expr_or_spread e1 ik] /\
             (is_lit e1 = true \/ is_ident e1 = true) /\ is_lit e1 = false /\
             (forall x, In x (p_idents p0) -> In x (p_idents p1))).
  { intros e0 a0 p0 e1 a1 p1 H L. unfold replace_default in H.
    destruct (get_ident c e0 span ik a0 p0) as [[id a2] p2] eqn:G.
    inversion H; subst.
    pose proof G as G'. apply get_ident_spec in G'. cbn zeta in G'. destruct G' as (A & B & I & _).
    unfold get_ident in G. destruct (get_temporal c e0 span ik a0 p0) as [[i a3] p3] eqn:T.
    inversion G; subst. apply get_temporal_spec in T.
    destruct T as [(L' & _) | (_ & -> & _)]; [congruence|].
    repeat split; auto. }
  assert (NE : forall a0 p0 e1 a1 p1,
             replace_expr_noexpand c e im span ik a0 p0 = (e1, a1, p1) ->
             (is_plus_bin e = true /\ e1 = e /\ a1 = a0 /\ p1 = p0) \/
             (is_plus_bin e = false /\ a_args a1 = a_args a0 ++ [expr_or_spread e1 ik] /\
              (is_lit e1 = true \/ is_ident e1 = true) /\ is_lit e1 = is_lit e /\
              (forall x, In x (p_idents p0) -> In x (p_idents p1)))).
  { intros a0 p0 e1 a1 p1 H. unfold replace_expr_noexpand in H. unfold is_plus_bin.
    destruct (is_lit e) eqn:L.
    - inversion H; subst. right.
      assert (B : bin_op e1 = None).
      { destruct e1 as [[k lo hi| | | | | |] cs]; try reflexivity. destruct k; try reflexivity; discriminate L. }
      rewrite B. simpl. repeat split; auto.
    - destruct (is_ident e) eqn:I.
      + assert (B : bin_op e = None).
        { destruct e as [[k lo hi| | | | | |] cs]; try reflexivity. destruct k; try reflexivity; discriminate I. }
        rewrite B. right. destruct im.
        * apply RD in H; [|exact L]. destruct H as (A & B' & C & D). repeat split; auto; congruence.
        * inversion H; subst. simpl. repeat split; auto.
      + destruct (bin_op e) as [op|] eqn:B.
        * destruct (String.eqb op "+") eqn:O.
          -- inversion H; subst. left. auto.
          -- right. apply RD in H; [|exact L]. destruct H as (A & B' & C & D). repeat split; auto; congruence.
        * right. apply RD in H; [|exact L]. destruct H as (A & B' & C & D). repeat split; auto; congruence. }
  unfold replace_expr. intros H.
  destruct (is_lit e || is_ident e) eqn:LI; [apply NE; exact H|].
  apply orb_false_iff in LI. destruct LI as [L I].
  destruct (bin_op e) as [op|] eqn:B; [apply NE; exact H|].
  assert (P : is_plus_bin e = false) by (unfold is_plus_bin; rewrite B; reflexivity).
  right. rewrite P.
  assert (X : replace_default c e span ik a p = (e', a', p')).
  { destruct e as [[k lo hi| | | | | |] cs]; try exact H. destruct k; try exact H.
    destruct cs as [|[[| | | | | |] elems] [|? ?]]; exact H. }
  apply RD in X; [|exact L]. destruct X as (A & B' & C & D). repeat split; auto; congruence.
Qed.

(** ** The binary transformation *)
Lemma is_plus_agree e : Shapes.is_plus e = is_plus_bin e.
Proof.
  unfold Shapes.is_plus, is_plus_bin, bin_op.
  destruct e as [[k lo hi| | | | | |] cs]; try reflexivity. destruct k; try reflexivity.
  destruct cs as [|[[| | | |s| |] [|? ?]] rest]; try reflexivity.
  all: destruct s as [|[[] [] [] [] [] [] [] []] [|? ?]]; reflexivity.
Qed.

Lemma binary_transform_shape c lo hi l r p out p' :
  binary_transform c (Node (K KBin lo hi) [nS "+"; l; r]) p = (Some out, p') ->
  exists l' r' a,
    out = dd_paren (Node (K KBin lo hi) [nS "+"; l'; r']) a (plus_name c) (lo, hi) /\
    a_args a = (if is_plus_bin l' then [] else [mk_arg l']) ++ (if is_plus_bin r' then [] else [mk_arg r']) /\
    (is_plus_bin l' = false -> is_lit l' = true \/ is_ident l' = true) /\
    (is_plus_bin r' = false -> is_lit r' = true \/ is_ident r' = true) /\
    (forall x, In x (p_idents p) -> In x (p_idents p')).
Proof.
  unfold binary_transform.
  destruct (replace_expr c l (get_ident_mode r) (lo, hi) IKExpr false acc0 p) as [[l' a1] p1] eqn:E1.
  destruct (replace_expr c r (get_ident_mode l') (lo, hi) IKExpr false a1 p1) as [[r' a2] p2] eqn:E2.
  destruct (existsb arg_is_nonlit (a_args a2)); [|discriminate].
  intros H; inversion H; subst. exists l', r', a2.
  apply replace_expr_spec in E1. apply replace_expr_spec in E2.
  assert (NP : forall e, is_lit e = true \/ is_ident e = true -> is_plus_bin e = false).
  { intros e [L|L]; unfold is_plus_bin, bin_op;
      destruct e as [[k ? ?| | | | | |] cs]; try reflexivity; destruct k; try reflexivity; discriminate L. }
  split; [reflexivity|].
  destruct E1 as [(P1 & -> & -> & ->) | (P1 & A1 & S1 & L1 & I1)];
  destruct E2 as [(P2 & -> & -> & ->) | (P2 & A2 & S2 & L2 & I2)].
  - rewrite P1, P2. simpl. repeat split; auto; congruence.
  - rewrite P1, (NP _ S2). rewrite A2. simpl. repeat split; auto; congruence.
  - rewrite (NP _ S1), P2. rewrite A1. simpl. repeat split; auto; congruence.
  - rewrite (NP _ S1), (NP _ S2). rewrite A2, A1. simpl. repeat split; auto.
Qed.

(** C03: the hook's remaining arguments are exactly the operands of the operation in its first
    argument, in order; the only disagreement the specification can report at this hook is an
    operand that is itself a [+] left in place. *)
Theorem binary_hook_arguments c vp lo hi l r p out p' :
  binary_transform c (Node (K KBin lo hi) [nS "+"; l; r]) p = (Some out, p') ->
  exists op a ex,
    out = dd_paren op a (plus_name c) (lo, hi) /\
    expected_of_operation op = Some ex /\
    forall issue, In issue (match_args vp ex (a_args a)) -> issue = "sum-operand-omitted"%string.
Proof.
  intros H. apply binary_transform_shape in H.
  destruct H as (l' & r' & a & -> & A & SL & SR & _).
  exists (Node (K KBin lo hi) [nS "+"; l'; r']), a,
         [expect_operand (mk_arg l'); expect_operand (mk_arg r')].
  split; [reflexivity|]. split; [reflexivity|].
  rewrite A. unfold expect_operand, mk_arg, nO. rewrite !is_plus_agree.
  assert (OK : forall x rest, is_lit x = true \/ is_ident x = true ->
               match_args vp (Exact (Node Obj [nNul; x]) :: rest) (Node Obj [nNul; x] :: nil) =
               match_args vp rest nil).
  { intros x rest S. simpl. rewrite node_eqb_refl. simpl.
    unfold simple_arg, arg_expr. destruct S as [S|S]; rewrite S; simpl; try rewrite orb_true_r; reflexivity. }
  destruct (is_plus_bin l') eqn:PL; destruct (is_plus_bin r') eqn:PR; simpl.
  - intros issue [<-|[<-|[]]]; reflexivity.
  - intros issue [<-|Hin]; [reflexivity|].
    revert Hin. specialize (SR eq_refl). rewrite node_eqb_refl. simpl.
    unfold simple_arg, arg_expr. destruct SR as [S|S]; rewrite S; simpl; try rewrite orb_true_r; simpl; tauto.
  - specialize (SL eq_refl). rewrite node_eqb_refl. simpl.
    unfold simple_arg, arg_expr. destruct SL as [S|S]; rewrite S; simpl; try rewrite orb_true_r; simpl;
      intros issue [<-|[]]; reflexivity.
  - specialize (SL eq_refl). specialize (SR eq_refl). rewrite !node_eqb_refl. simpl.
    unfold simple_arg, arg_expr.
    destruct SL as [S|S]; rewrite S; destruct SR as [S'|S']; rewrite S'; simpl;
      try rewrite !orb_true_r; simpl; tauto.
Qed.

(** C04: a [+] with an operand that is neither a literal nor itself a [+] left in place is
    always instrumented (whatever the other operand, accumulator and provider state). *)
Theorem binary_fires_left c lo hi opn l r p :
  is_lit l = false -> is_plus_bin l = false ->
  exists out p', binary_transform c (Node (K KBin lo hi) [opn; l; r]) p = (Some out, p').
Proof.
  intros L P. unfold binary_transform.
  destruct (replace_expr c l (get_ident_mode r) (lo, hi) IKExpr false acc0 p) as [[l' a1] p1] eqn:E1.
  destruct (replace_expr c r (get_ident_mode l') (lo, hi) IKExpr false a1 p1) as [[r' a2] p2] eqn:E2.
  apply replace_expr_spec in E1. apply replace_expr_spec in E2.
  destruct E1 as [(P1 & _) | (_ & A1 & _ & L1 & _)]; [congruence|].
  assert (X : existsb arg_is_nonlit (a_args a2) = true).
  { apply existsb_exists. exists (mk_arg l'). split.
    - destruct E2 as [(_ & _ & -> & _) | (_ & A2 & _)].
      + rewrite A1. apply in_or_app. right. left. reflexivity.
      + rewrite A2, A1. apply in_or_app. left. apply in_or_app. right. left. reflexivity.
    - unfold arg_is_nonlit, mk_arg, nO, arg_expr. rewrite L1, L. reflexivity. }
  rewrite X. eauto.
Qed.

Theorem binary_fires_right c lo hi opn l r p :
  is_lit r = false -> is_plus_bin r = false ->
  exists out p', binary_transform c (Node (K KBin lo hi) [opn; l; r]) p = (Some out, p').
Proof.
  intros L P. unfold binary_transform.
  destruct (replace_expr c l (get_ident_mode r) (lo, hi) IKExpr false acc0 p) as [[l' a1] p1] eqn:E1.
  destruct (replace_expr c r (get_ident_mode l') (lo, hi) IKExpr false a1 p1) as [[r' a2] p2] eqn:E2.
  apply replace_expr_spec in E2.
  destruct E2 as [(P2 & _) | (_ & A2 & _ & L2 & _)]; [congruence|].
  assert (X : existsb arg_is_nonlit (a_args a2) = true).
  { apply existsb_exists. exists (mk_arg r'). split.
    - rewrite A2. apply in_or_app. right. left. reflexivity.
    - unfold arg_is_nonlit, mk_arg, nO, arg_expr. rewrite L2, L. reflexivity. }
  rewrite X. eauto.
Qed.

(** C15 / C12: an instrumented [+] adds exactly one hook site and loses none. *)
Theorem binary_hook_count c lo hi l r p out p' :
  binary_transform c (Node (K KBin lo hi) [nS "+"; l; r]) p = (Some out, p') ->
  exists op a, out = dd_paren op a (plus_name c) (lo, hi) /\
    hook_count out = 1 + hook_count op + hook_count_list (a_args a) + hook_count_list (a_assigns a).
Proof.
  intros H. apply binary_transform_shape in H. destruct H as (l' & r' & a & -> & _).
  eexists _, a. split; [reflexivity | apply hook_count_dd_paren].
Qed.

(** ** Temporary names are injective in the counter *)
From Coq Require Import DecimalString DecimalN Decimal.

Lemma N_to_string_inj n m : N_to_string n = N_to_string m -> n = m.
Proof.
  unfold N_to_string. intros H.
  assert (U : N.to_uint n = N.to_uint m).
  { apply (f_equal NilEmpty.uint_of_string) in H. rewrite !NilEmpty.usu in H. inversion H. reflexivity. }
  apply (f_equal N.of_uint) in U. rewrite !DecimalN.Unsigned.of_to in U. exact U.
Qed.

Lemma app_inv_head_string (a b c : string) : (a ++ b)%string = (a ++ c)%string -> b = c.
Proof. induction a as [|ch a IH]; simpl; intros H; [exact H | inversion H; auto]. Qed.

Lemma temp_name_inj c n m : temp_name c n = temp_name c m -> n = m.
Proof. unfold temp_name. intros H. apply app_inv_head_string in H. apply N_to_string_inj. exact H. Qed.
