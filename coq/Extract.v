(** Extraction of the executable model and validators to OCaml.
    Directives: ExtrOcamlBasic (bool, option, list, prod, unit, sumbool -> OCaml's),
    ExtrOcamlString (ascii -> char, string -> char list). N/positive/nat stay inductive. *)
From Coq Require Import Extraction ExtrOcamlBasic ExtrOcamlString.
From IastRw Require Import Ast Generated Config ToConfig SrcMap Literals Model HookSites Known Directives Erase Sites Hygiene Shapes Order WfTree Sem SemTie.
Extraction Language OCaml.
Extraction "../ocaml/model.ml"
  kind_of_string string_of_kind node_eqb node_size node_depth
  rewrite default_fuel N_to_string
  hook_count hook_names hook_tags known_classes var_prefix hook_sites
  directives_ok erase erase_ok lower first_diff_nospan plus_enabled tpl_enabled dup_effects
  required_sites missing_sites documented_lit_callers hook_keys hygiene_issues shape_issues
  directives_of after_directives is_injected_let program_body blocks_of
  roundtrip_ok norm_print strip_parens
  to_config prologue_text
  decode_mappings chain chain_opt lookup find_entry vlq_encode
  collect order_issues
  wf_all has_optchain ns_count badname badname_list configured ns_members
  sem_tie plus_name csi_get allows_literal_callers.
