(** * C15 -- block and program level: the count reported for a file equals the number of references to
    the hook namespace in the tree handed to the printer, minus those of the configured prologue.

    The operation visitor is run once per block statement on the block's own region; the nested blocks
    it leaves alone are visited afterwards.  What has to be carried from the outer to the inner visit is
    that those nested blocks (and the expression-bodied arrow functions outside every block) still are
    clean, well-formed *input*: this is the second instance [bad] of the generic measure. *)
From Coq Require Import String List NArith Bool Lia PeanoNat.
From IastRw Require Import Ast Generated Config Model HookSites WfTree P_OpVisit P_Kinds P_Telemetry
                           P_Count P_CountGlobal P_Program.
Import ListNotations.

(** ** The instance: number of maximal blocks / expression-bodied arrows that are not clean input *)
Definition goodb (n : node) : bool := wf_all n && Nat.eqb (ns_count n) 0.

Lemma goodb_good n : goodb n = true <-> good n.
Proof.
  unfold goodb, good. rewrite andb_true_iff, Nat.eqb_eq. tauto.
Qed.

Definition arrow_body_is_block (n : node) : bool :=
  match n with
  | Node _ [_; _; body; _; _; _; _] => is_kind KBlock body
  | _ => false
  end.

Definition stop_bad (n : node) : option nat :=
  if is_ns_member n then None
  else if is_kind KBlock n then Some (if goodb n then 0 else 1)
  else if arrow_body_is_block n then None
  else Some (if goodb n then 0 else 1).

Notation bad := (meas stop_bad 0).
Notation bad_list := (meas_list stop_bad 0).

Lemma bad_block_eq lo hi cs :
  bad (Node (K KBlock lo hi) cs) = if goodb (Node (K KBlock lo hi) cs) then 0 else 1.
Proof. reflexivity. Qed.

Lemma bad_arrow_eq lo hi cs :
  bad (Node (K KArrow lo hi) cs) =
  if arrow_body_is_block (Node (K KArrow lo hi) cs) then bad_list cs
  else if goodb (Node (K KArrow lo hi) cs) then 0 else 1.
Proof.
  change (bad (Node (K KArrow lo hi) cs))
    with (match stop_bad (Node (K KArrow lo hi) cs) with Some w => w | None => bad_list cs end).
  unfold stop_bad. change (is_kind KBlock (Node (K KArrow lo hi) cs)) with false. cbv iota.
  destruct (arrow_body_is_block (Node (K KArrow lo hi) cs)); reflexivity.
Qed.

Lemma meas_list_zero stop kappa l : Forall (fun c => meas stop kappa c = 0) l -> meas_list stop kappa l = 0.
Proof. induction 1 as [|x r Hx _ IH]; [reflexivity|]. cbn [meas_list fold_right] in *. rewrite Hx. exact IH. Qed.

Lemma meas_list_zero_inv stop kappa l : meas_list stop kappa l = 0 -> Forall (fun c => meas stop kappa c = 0) l.
Proof.
  induction l as [|x r IH]; intros H; [constructor|]. cbn [meas_list fold_right] in H.
  constructor; [lia | apply IH; unfold meas_list; lia].
Qed.

Lemma plain_of n : is_ident n = false -> leaf n = false -> plain n = true.
Proof. unfold plain. intros -> ->. reflexivity. Qed.

Lemma bad_good : forall n, good n -> bad n = 0.
Proof.
  apply (node_ind' (fun n => good n -> bad n = 0)). intros t cs IH G.
  cbn [meas]. destruct (is_ident (Node t cs)) eqn:I; [destruct (is_ns_ident (Node t cs)); reflexivity|].
  destruct (leaf (Node t cs)) eqn:Lf; [reflexivity|].
  assert (Z : meas_list stop_bad 0 cs = 0).
  { apply meas_list_zero. pose proof (good_children t cs (plain_of _ I Lf) G) as GC.
    clear -IH GC. induction cs as [|x r IHr]; [constructor|].
    inversion IH; inversion GC; subst. constructor; auto. }
  destruct (stop_kind (Node t cs)); [|exact Z].
  unfold stop_bad. rewrite (proj2 (goodb_good _) G).
  destruct (is_ns_member (Node t cs)); [exact Z|].
  destruct (is_kind KBlock (Node t cs)); [reflexivity|].
  destruct (arrow_body_is_block (Node t cs)); [exact Z | reflexivity].
Qed.

Lemma good_sub t cs x : plain (Node t cs) = true -> good (Node t cs) -> In x cs -> good x.
Proof. intros P G HI. pose proof (good_children t cs P G) as GC. rewrite Forall_forall in GC. auto. Qed.

Lemma bad_arrow : forall n, good n -> bad (arrow_transform n) = 0.
Proof.
  intros n G. unfold arrow_transform.
  destruct n as [[k lo hi| | | | | |] cs]; try (apply bad_good; exact G).
  destruct k; try (apply bad_good; exact G).
  destruct cs as [|cx [|params [|body [|asy [|gen [|tp [|rt [|? ?]]]]]]]]; try (apply bad_good; exact G).
  destruct (is_kind KBlock body) eqn:B; [apply bad_good; exact G|].
  set (blk := mk_block DUMMY [mk_return DUMMY body]).
  assert (P : plain (Node (K KArrow lo hi) [cx; params; body; asy; gen; tp; rt]) = true) by reflexivity.
  assert (Gb : good body) by (eapply good_sub; [exact P | exact G | simpl; tauto]).
  assert (GB : goodb blk = true).
  { apply goodb_good. destruct Gb as [W Z]. split.
    - unfold blk, mk_block, mk_return, mk, nL. cbn [wf_all wf_node]. rewrite W. reflexivity.
    - unfold blk, mk_block, mk_return, mk, nL. unfold ns_count.
      rewrite (ns_node_nostop 1 (K KBlock _ _)) by reflexivity. cbn [meas_list fold_right].
      rewrite (ns_node_nostop 1 Lst) by reflexivity. cbn [meas_list fold_right].
      rewrite (ns_node_nostop 1 (K KReturn _ _)) by reflexivity. cbn [meas_list fold_right].
      change (meas no_stop 1 ctxt0) with 0. unfold ns_count in Z. lia. }
  assert (BB : bad blk = 0).
  { unfold blk, mk_block, mk in *. rewrite bad_block_eq, GB. reflexivity. }
  rewrite bad_arrow_eq. unfold arrow_body_is_block. change (is_kind KBlock blk) with true. cbv iota.
  cbn [meas_list fold_right].
  rewrite BB.
  rewrite (bad_good cx) by (eapply good_sub; [exact P | exact G | simpl; tauto]).
  rewrite (bad_good params) by (eapply good_sub; [exact P | exact G | simpl; tauto]).
  rewrite (bad_good asy) by (eapply good_sub; [exact P | exact G | simpl; tauto]).
  rewrite (bad_good gen) by (eapply good_sub; [exact P | exact G | simpl; tauto]).
  rewrite (bad_good tp) by (eapply good_sub; [exact P | exact G | simpl; tauto]).
  rewrite (bad_good rt) by (eapply good_sub; [exact P | exact G | simpl; tauto]).
  reflexivity.
Qed.

(** After the operation visitor every maximal nested block is still clean input. *)
Theorem op_visit_bad c : c_verbosity c <> VOff -> forall fuel root n s n' s',
  op_visit c fuel root n s = Some (n', s') -> good n -> live s -> bad n' = 0 /\ live s'.
Proof.
  intros Hv fuel root n s n' s' H G L.
  destruct (op_visit_count stop_bad 0 bad_good bad_arrow (fun _ => True) (fun name span _ => eq_refl)
              c (or_introl eq_refl) (fun _ => I) (fun _ => I) (fun _ _ _ => I) _ _ _ _ _ _ H G L) as [A B].
  split; [|exact B]. change (N.of_nat 0) with 0%N in A. rewrite !N.mul_0_l in A. lia.
Qed.

(** ** The injected declaration carries no reference and no block *)
Lemma meas_let stop kappa span idents :
  Forall (fun x => String.eqb x gen_DD_GLOBAL_NAMESPACE = false) idents ->
  meas stop kappa (mk_let span (map (fun name => mk_var_declarator span (mk_binding_ident DUMMY name)) idents)) = 0.
Proof.
  intros F. unfold mk_let, mk, nL. rewrite ns_node by reflexivity. cbn [meas_list fold_right].
  rewrite (ns_node Lst) by reflexivity.
  change (meas stop kappa ctxt0) with 0. change (meas stop kappa (nS "let")) with 0.
  change (meas stop kappa (nB false)) with 0.
  assert (Z : meas_list stop kappa (map (fun name => mk_var_declarator span (mk_binding_ident DUMMY name)) idents) = 0).
  { apply meas_list_zero. rewrite Forall_forall in *. intros d Hd. apply in_map_iff in Hd.
    destruct Hd as (name & <- & Hn). unfold mk_var_declarator, mk. rewrite ns_node by reflexivity.
    cbn [meas_list fold_right]. rewrite ns_mk_binding_ident by (apply F; exact Hn).
    change (meas stop kappa nNul) with 0. change (meas stop kappa (nB false)) with 0. reflexivity. }
  rewrite Z. reflexivity.
Qed.

Lemma meas_list_insert_at stop kappa i xs l :
  meas_list stop kappa (insert_at i xs l) = meas_list stop kappa xs + meas_list stop kappa l.
Proof.
  unfold insert_at. rewrite !ns_list_app.
  rewrite <- (firstn_skipn i l) at 3. rewrite ns_list_app. lia.
Qed.

Lemma meas_insert_let stop kappa idents span stmts :
  Forall (fun x => String.eqb x gen_DD_GLOBAL_NAMESPACE = false) idents ->
  meas_list stop kappa (insert_let idents span stmts) = meas_list stop kappa stmts.
Proof.
  intros F. unfold insert_let. destruct idents as [|i0 is]; [reflexivity|].
  rewrite meas_list_insert_at. cbn [meas_list fold_right]. rewrite (meas_let stop kappa span (i0 :: is) F). reflexivity.
Qed.

(** ** Lists of visited children, relative form *)
Section Rel.
  Variable f : node -> tstate -> option (node * tstate).

  Lemma map_st_count_rel : forall l,
    (forall x, In x l -> forall t x' t', f x t = Some (x', t') -> bad x = 0 ->
       (N.of_nat (ns_count x') + t_count t = N.of_nat (ns_count x) + t_count t')%N) ->
    forall t l' t', map_st f l t = Some (l', t') -> bad_list l = 0 ->
      (N.of_nat (ns_count_list l') + t_count t = N.of_nat (ns_count_list l) + t_count t')%N.
  Proof.
    induction l as [|x r IH]; intros Hf t l' t' H Z; simpl in H.
    - inversion H; subst. reflexivity.
    - destruct (f x t) as [[x1 t1]|] eqn:E; [|discriminate].
      destruct (map_st f r t1) as [[r1 t2]|] eqn:E2; [|discriminate].
      inversion H; subst. apply meas_list_zero_inv in Z. inversion Z as [|? ? Zx Zr]; subst.
      pose proof (Hf x (or_introl eq_refl) _ _ _ E Zx) as A.
      pose proof (IH (fun y Hy => Hf y (or_intror Hy)) _ _ _ E2 (meas_list_zero _ _ _ Zr)) as B.
      unfold ns_count_list, ns_count in *. rewrite !ns_list_cons. lia.
  Qed.
End Rel.

(** The names registered during the visit of a block's region are temporaries. *)
Lemma map_st_temp c fuel root l s l' s' :
  map_st (op_visit c fuel root) l s = Some (l', s') -> all_temp (o_p s) -> all_temp (o_p s').
Proof.
  intros H. eapply (map_st_rel (op_visit c fuel root) (fun a b => all_temp (o_p a) -> all_temp (o_p b))); [| | |exact H].
  - auto.
  - auto.
  - intros x _ sx x' sx'. apply op_visit_temp.
Qed.

(** ** The block visitor *)
Section BlockLevel.
  Variable c : config.
  Hypothesis Hv : c_verbosity c <> VOff.

  Lemma ns_plain t cs : plain (Node t cs) = true -> ns_count (Node t cs) = ns_count_list cs.
  Proof. intros P. unfold ns_count, ns_count_list. apply ns_node_nostop. exact P. Qed.

  Lemma bad_plain t cs : plain (Node t cs) = true -> stop_kind (Node t cs) = false ->
    bad (Node t cs) = bad_list cs.
  Proof. intros P S. apply ns_node; assumption. Qed.

  (** A member expression has no weight of its own under [stop_bad], on the hook namespace or not. *)
  Lemma bad_member lo hi cs : bad (Node (K KMember lo hi) cs) = bad_list cs.
  Proof.
    cbn [meas]. change (is_ident (Node (K KMember lo hi) cs)) with false. change (leaf (Node (K KMember lo hi) cs)) with false.
    cbv iota. unfold stop_kind, stop_bad. change (is_kind KBlock (Node (K KMember lo hi) cs)) with false.
    change (is_kind KArrow (Node (K KMember lo hi) cs)) with false. cbn [orb].
    destruct (is_ns_member (Node (K KMember lo hi) cs)); reflexivity.
  Qed.

  (** A block statement weighs zero exactly when it is clean input. *)
  Lemma bad_block lo hi cs : bad (Node (K KBlock lo hi) cs) = 0 -> good (Node (K KBlock lo hi) cs).
  Proof.
    rewrite bad_block_eq.
    destruct (goodb (Node (K KBlock lo hi) cs)) eqn:G; [intros _; apply goodb_good; exact G | discriminate].
  Qed.

  (** An arrow function weighs zero when its children do (block body) or when it is clean input. *)
  Lemma bad_arrow_node lo hi cs : bad (Node (K KArrow lo hi) cs) = 0 ->
    (arrow_body_is_block (Node (K KArrow lo hi) cs) = true /\ bad_list cs = 0) \/ good (Node (K KArrow lo hi) cs).
  Proof.
    rewrite bad_arrow_eq. destruct (arrow_body_is_block (Node (K KArrow lo hi) cs)) eqn:A.
    - intros Z. left. split; [reflexivity | exact Z].
    - destruct (goodb (Node (K KArrow lo hi) cs)) eqn:G; [intros _; right; apply goodb_good; exact G | discriminate].
  Qed.

  Lemma good_bad_list t cs : plain (Node t cs) = true -> good (Node t cs) -> bad_list cs = 0.
  Proof.
    intros P G. apply meas_list_zero. pose proof (good_children t cs P G) as GC.
    rewrite Forall_forall in *. intros x Hx. apply bad_good. auto.
  Qed.

  Definition stmt_count (n n' : node) (t t' : tstate) : Prop :=
    (N.of_nat (ns_count n') + t_count t = N.of_nat (ns_count n) + t_count t')%N.

  Theorem block_visit_count : forall fuel n t n' t',
    block_visit c fuel n t = Some (n', t') -> bad n = 0 -> stmt_count n n' t t'.
  Proof.
    induction fuel as [|f IH]; intros n t n' t' H Z; [discriminate|].
    (* visiting the children of a node whose measure is the sum over them *)
    assert (CH : forall tg cs t0 r t0',
               match map_st (block_visit c f) cs t0 with
               | Some (cs', t1) => Some (Node tg cs', t1)
               | None => None
               end = Some (r, t0') ->
               plain (Node tg cs) = true -> bad_list cs = 0 -> stmt_count (Node tg cs) r t0 t0').
    { intros tg cs t0 r t0' H0 P Z0.
      destruct (map_st (block_visit c f) cs t0) as [[cs' t1]|] eqn:E; [|discriminate].
      inversion H0; subst. unfold stmt_count.
      assert (P' : plain (Node tg cs') = true).
      { unfold plain in *. destruct tg as [k lo hi| | | | | |]; exact P. }
      rewrite (ns_plain _ _ P), (ns_plain _ _ P').
      eapply map_st_count_rel; [|exact E|exact Z0].
      intros x _ tx x' tx' Ex Zx. exact (IH _ _ _ _ Ex Zx). }
    (* the general case: not a leaf, not a stop kind *)
    assert (GEN : forall tg cs,
               (if leaf (Node tg cs) then Some (Node tg cs, t)
                else match map_st (block_visit c f) cs t with
                     | Some (cs', t1) => Some (Node tg cs', t1)
                     | None => None
                     end) = Some (n', t') ->
               is_ident (Node tg cs) = false -> stop_kind (Node tg cs) = false ->
               bad (Node tg cs) = 0 -> stmt_count (Node tg cs) n' t t').
    { intros tg cs H0 I S Z0. destruct (leaf (Node tg cs)) eqn:Lf.
      - inversion H0; subst. unfold stmt_count. lia.
      - pose proof (plain_of _ I Lf) as P. rewrite (bad_plain _ _ P S) in Z0. exact (CH _ _ _ _ _ H0 P Z0). }
    cbn [block_visit] in H.
    destruct n as [tg cs]. destruct tg as [k lo hi| | | | | |]; try (apply GEN; [exact H | reflexivity | reflexivity | exact Z]).
    destruct k; try (apply GEN; [exact H | reflexivity | reflexivity | exact Z]).
    - (* block statement *)
      pose proof (bad_block _ _ _ Z) as G.
      assert (OTHER : (if leaf (Node (K KBlock lo hi) cs) then Some (Node (K KBlock lo hi) cs, t)
                       else match map_st (block_visit c f) cs t with
                            | Some (cs', t1) => Some (Node (K KBlock lo hi) cs', t1)
                            | None => None
                            end) = Some (n', t') -> stmt_count (Node (K KBlock lo hi) cs) n' t t').
      { intros H0. change (leaf (Node (K KBlock lo hi) cs)) with false in H0. cbv iota in H0.
        eapply CH; [exact H0 | reflexivity | exact (good_bad_list (K KBlock lo hi) cs eq_refl G)]. }
      destruct cs as [|cx [|[[| | | | | |] stmts] [|? ?]]]; try (apply OTHER; exact H).
      destruct (status_eqb (t_status t) Cancelled) eqn:Ec; [inversion H; subst; unfold stmt_count; lia|].
      destruct (map_st (op_visit c f true) [cx; Node Lst stmts] {| o_p := p_init; o_t := t |})
        as [[l s]|] eqn:E; [|discriminate].
      destruct l as [|cx' [|[[| | | | | |] stmts'] [|? ?]]]; try discriminate.
      (* the operation visitor on the block's own region *)
      assert (L0 : live {| o_p := p_init; o_t := t |}).
      { unfold live. cbn [o_t]. intros X. rewrite X in Ec. discriminate Ec. }
      pose proof (good_children (K KBlock lo hi) [cx; Node Lst stmts] eq_refl G) as GC.
      destruct (map_st_count no_stop 1 (op_visit c f true) [cx; Node Lst stmts]
                  (fun x _ sx x' sx' Ex Gx Lx => op_visit_count no_stop 1 (fun n G => proj2 G)
                       (fun n G => eq_trans (arrow_transform_ns n) (proj2 G))
                       (fun _ => True) (fun name span _ => eq_refl) c (or_intror Hv) (fun _ => I) (fun _ => I) (fun _ _ _ => I) _ _ _ _ _ _ Ex Gx Lx)
                  _ _ _ E GC L0) as [A1 L1].
      destruct (map_st_count stop_bad 0 (op_visit c f true) [cx; Node Lst stmts]
                  (fun x _ sx x' sx' Ex Gx Lx => op_visit_count stop_bad 0 bad_good bad_arrow
                       (fun _ => True) (fun name span _ => eq_refl) c (or_introl eq_refl) (fun _ => I) (fun _ => I) (fun _ _ _ => I) _ _ _ _ _ _ Ex Gx Lx)
                  _ _ _ E GC L0) as [A2 _].
      change (N.of_nat 1) with 1%N in A1. rewrite !N.mul_1_l in A1.
      change (N.of_nat 0) with 0%N in A2. rewrite !N.mul_0_l in A2.
      unfold cnt in A1. cbn [o_t] in A1.
      pose proof (map_st_temp _ _ _ _ _ _ _ E all_temp_init) as AT.
      destruct (p_dup (o_p s)).
      + inversion H; subst. unfold stmt_count. destruct G as [_ Gz]. rewrite Gz.
        rewrite (ns_plain (K KBlock lo hi)) by reflexivity. unfold t_cancel. cbn [t_count].
        unfold ns_count_list. lia.
      + set (stmts'' := insert_let (p_idents (o_p s)) (lo, hi) stmts') in *.
        assert (N1 : ns_count_list [cx'; Node Lst stmts''] = ns_count_list [cx'; Node Lst stmts']).
        { unfold ns_count_list. cbn [meas_list fold_right].
          rewrite !(ns_node_nostop 1 Lst) by reflexivity. unfold stmts''. rewrite meas_insert_let by exact AT. reflexivity. }
        assert (B1 : bad_list [cx'; Node Lst stmts''] = 0).
        { cbn [meas_list fold_right]. cbn [meas_list fold_right] in A2.
          rewrite (ns_node Lst) by reflexivity. rewrite (ns_node Lst) in A2 by reflexivity.
          unfold stmts''. rewrite meas_insert_let by exact AT. lia. }
        assert (C1 : stmt_count (Node (K KBlock lo hi) [cx'; Node Lst stmts'']) n' (o_t s) t') by (eapply CH; [exact H | reflexivity | exact B1]). unfold stmt_count in *.
        rewrite (ns_plain (K KBlock lo hi) [cx'; Node Lst stmts'']) in C1 by reflexivity.
        rewrite N1 in C1. destruct G as [_ Gz]. rewrite Gz. unfold ns_count_list in *. lia.
    - (* member expression *)
      change (leaf (Node (K KMember lo hi) cs)) with false in H. cbv iota in H.
      rewrite bad_member in Z. exact (CH _ _ _ _ _ H eq_refl Z).
    - (* arrow function outside every block *)
      destruct (bad_arrow_node _ _ _ Z) as [[AB ZL] | G].
      + (* block body: the normalisation is the identity *)
        assert (AT : arrow_transform (Node (K KArrow lo hi) cs) = Node (K KArrow lo hi) cs).
        { unfold arrow_transform. unfold arrow_body_is_block in AB.
          destruct cs as [|cx [|params [|body [|asy [|gen [|tp [|rt [|? ?]]]]]]]]; try reflexivity.
          rewrite AB. reflexivity. }
        rewrite AT in H. destruct (status_eqb (t_status t) Cancelled); (eapply CH; [exact H | reflexivity | exact ZL]).
      + destruct (status_eqb (t_status t) Cancelled).
        * (eapply CH; [exact H | reflexivity | exact (good_bad_list (K KArrow lo hi) _ eq_refl G)]).
        * pose proof (bad_arrow _ G) as BA. pose proof (arrow_transform_ns (Node (K KArrow lo hi) cs)) as NA.
          unfold arrow_transform in *.
          destruct cs as [|cx [|params [|body [|asy [|gen [|tp [|rt [|? ?]]]]]]]];
            try (eapply CH; [exact H | reflexivity | exact (good_bad_list (K KArrow lo hi) _ eq_refl G)]).
          destruct (is_kind KBlock body) eqn:B; [(eapply CH; [exact H | reflexivity | exact (good_bad_list (K KArrow lo hi) _ eq_refl G)])|].
          (* the rebuilt arrow: block body, children weigh zero *)
          destruct (bad_arrow_node _ _ _ BA) as [[_ ZL] | G2].
          -- unfold stmt_count. rewrite <- NA. eapply CH; [exact H | reflexivity | exact ZL].
          -- unfold stmt_count. rewrite <- NA. eapply CH; [exact H | reflexivity | exact (good_bad_list (K KArrow lo hi) _ eq_refl G2)].
    - (* identifier *)
      destruct (ident_sym (Node (K KIdent lo hi) cs)); [|inversion H; subst; unfold stmt_count; lia].
      match type of H with (if ?b then _ else _) = _ => destruct b end;
        inversion H; subst; unfold stmt_count, t_cancel; cbn [t_count]; lia.
  Qed.
End BlockLevel.

(** ** The program *)
Theorem program_visit_count c : c_verbosity c <> VOff ->
  forall fuel k lo hi body interp ast t,
    (k = KScript \/ k = KModule) ->
    good (Node (K k lo hi) [Node Lst body; interp]) ->
    program_visit c fuel (Node (K k lo hi) [Node Lst body; interp]) = Some (ast, t) ->
    N.of_nat (ns_count ast) =
      (t_count t + (if status_eqb (t_status t) Modified then N.of_nat (ns_count_list (c_prefix_stmts c)) else 0))%N.
Proof.
  intros Hv fuel k lo hi body interp ast t Hk G H.
  destruct (program_visit_shape _ _ _ _ _ _ _ _ _ Hk H) as (body' & interp' & M & ->).
  assert (P : plain (Node (K k lo hi) [Node Lst body; interp]) = true) by (destruct Hk as [-> | ->]; reflexivity).
  pose proof (map_st_count_rel (block_visit c fuel) [Node Lst body; interp]
                (fun x _ tx x' tx' Ex Zx => block_visit_count c Hv _ _ _ _ _ Ex Zx) _ _ _ M
                (good_bad_list _ _ P G)) as A.
  assert (Z0 : ns_count_list [Node Lst body; interp] = 0).
  { destruct G as [_ Gz]. rewrite (ns_plain _ _ P) in Gz. exact Gz. }
  rewrite Z0 in A. change (t_count t_init) with 0%N in A.
  assert (P' : forall b, plain (Node (K k lo hi) [Node Lst b; interp']) = true) by (intros b; destruct Hk as [-> | ->]; reflexivity).
  rewrite (ns_plain _ _ (P' _)). unfold ns_count_list in *. cbn [meas_list fold_right] in *.
  rewrite !(ns_node_nostop 1 Lst) in * by reflexivity.
  destruct (status_eqb (t_status t) Modified).
  - unfold insert_prologue. rewrite meas_list_insert_at. lia.
  - lia.
Qed.

(** The rewriter's result: the count is the number of references in the tree handed to the printer
    that do not come from the configured prologue. *)
Theorem rewrite_count c file k lo hi body interp ast t : c_verbosity c <> VOff ->
  (k = KScript \/ k = KModule) ->
  good (Node (K k lo hi) [Node Lst body; interp]) ->
  rewrite c file (Node (K k lo hi) [Node Lst body; interp]) = OutOk ast t ->
  N.of_nat (ns_count ast) =
    (t_count t + (if status_eqb (t_status t) Modified then N.of_nat (ns_count_list (c_prefix_stmts c)) else 0))%N.
Proof.
  intros Hv Hk G. unfold rewrite.
  destruct (program_visit c _ _) as [[ast0 t0]|] eqn:E; [|discriminate].
  destruct (t_status t0) eqn:St; try discriminate; intros H; inversion H; subst;
    eapply program_visit_count; eauto.
Qed.
