(** * Lemmas about status / telemetry bookkeeping ([update_status], [telemetry_inc]). *)
From Coq Require Import String List NArith Bool Lia.
From IastRw Require Import Ast Generated Config Model.
Import ListNotations.

Lemma status_eqb_eq a b : status_eqb a b = true <-> a = b.
Proof. destruct a, b; simpl; split; intro H; try reflexivity; try discriminate. Qed.

(** Verbosity off: nothing is ever counted. *)
Lemma telemetry_inc_off tag t : telemetry_inc VOff tag t = t.
Proof. reflexivity. Qed.

Lemma update_status_off_count st tag t :
  t_count (update_status VOff st tag t) = t_count t /\
  t_tags (update_status VOff st tag t) = t_tags t.
Proof.
  unfold update_status. destruct (status_eqb (t_status t) Cancelled); [split; reflexivity|].
  destruct (status_eqb st Modified); simpl; destruct (status_eqb st NotModified); simpl; split; reflexivity.
Qed.

(** An operation that was not instrumented never moves the counter, the tags or the status. *)
Lemma update_status_not_modified v tag t : update_status v NotModified tag t = t.
Proof.
  unfold update_status. destruct (status_eqb (t_status t) Cancelled); reflexivity.
Qed.

(** An instrumented operation moves the counter by exactly one (unless off or cancelled),
    records exactly its tag in debug verbosity, and marks the file modified. *)
Lemma update_status_modified v tag t :
  t_status t <> Cancelled ->
  let t' := update_status v Modified tag t in
  t_status t' = Modified /\
  t_count t' = (if match v with VOff => true | _ => false end then t_count t else N.succ (t_count t)) /\
  t_tags t' = (match v, tag with VDebug, Some g => g :: t_tags t | _, _ => t_tags t end).
Proof.
  intros Hc. unfold update_status.
  destruct (status_eqb (t_status t) Cancelled) eqn:E.
  - apply status_eqb_eq in E. contradiction.
  - simpl. destruct v; simpl; repeat split; try reflexivity; destruct tag; reflexivity.
Qed.

Lemma update_status_cancelled v st tag t :
  t_status t = Cancelled -> update_status v st tag t = t.
Proof. intros H. unfold update_status. rewrite H. reflexivity. Qed.
