(** * C03 -- each hook call receives the true result and the true operands, in order. *)
From Coq Require Import String List NArith Bool.
From IastRw Require Import Ast Generated Config Model HookSites Erase Shapes P_Hooks P_Local.
Import ListNotations.

(** The call the model emits is a hook call whose first argument is the operation and whose
    remaining arguments are exactly the accumulated operand list. *)
Theorem C03_hook_call_layout : forall e args name span,
  hook_call (dd_call e args name span) = Some (name, mk_arg e :: args).
Proof. exact hook_call_dd_call. Qed.
Print Assumptions C03_hook_call_layout.

(** Operand handling, for every operand tree, accumulator and provider state: either the operand is
    a [+] left in place (nothing is passed for it: the known finding C03-sum-operand-omitted), or
    exactly one argument is pushed and it is the very expression standing in the operation -- a
    literal, a kept identifier, or the fresh temporary the operand was assigned to. *)
Theorem C03_operand_argument : forall c e im span ik a p e' a' p',
  replace_expr c e im span ik false a p = (e', a', p') ->
  (is_plus_bin e = true /\ e' = e /\ a' = a /\ p' = p) \/
  (is_plus_bin e = false /\
   a_args a' = a_args a ++ [expr_or_spread e' ik] /\
   (is_lit e' = true \/ is_ident e' = true) /\
   (is_lit e' = is_lit e) /\
   (forall x, In x (p_idents p) -> In x (p_idents p'))).
Proof. exact replace_expr_spec. Qed.
Print Assumptions C03_operand_argument.

(** Binary [+]: the specification-side reading of the emitted hook call ([Shapes.match_args], the
    function the check runs on the implementation's output) finds the arguments equal to the
    operands, in order; the only report possible is the omitted-sum finding. *)
Theorem C03_binary_hook_arguments : forall c vp lo hi l r p out p',
  binary_transform c (Node (K KBin lo hi) [nS "+"; l; r]) p = (Some out, p') ->
  exists op a ex,
    out = dd_paren op a (plus_name c) (lo, hi) /\
    expected_of_operation op = Some ex /\
    forall issue, In issue (match_args vp ex (a_args a)) -> issue = "sum-operand-omitted"%string.
Proof. exact binary_hook_arguments. Qed.
Print Assumptions C03_binary_hook_arguments.

(** The known finding is real: a witness on which the model (and the code) omit an operand. *)
Example C03_sum_operand_omitted_refuted :
  let c := {| c_prefix := "t"; c_methods := [{| m_src := "plusOperator"; m_dst := "plusOperator"; m_operator := true; m_awc := false |}];
              c_lit_callers := []; c_verbosity := VInformation; c_literals := true; c_chain := false; c_comments := false; c_prefix_stmts := [] |} in
  let sum := mk_bin (1, 10)%N "+" (mk KStr (1, 4)%N [nS "a"; nS "'a'"]) (mk KStr (7, 10)%N [nS "b"; nS "'b'"]) in
  match binary_transform c (mk_bin (1, 14)%N "+" sum (mk_ident (13, 14)%N "c")) p_init with
  | (Some out, _) => existsb (String.eqb "sum-operand-omitted") (shape_issues "__datadog_t_" out)
  | _ => false
  end = true.
Proof. vm_compute. reflexivity. Qed.
