(** * C13 -- the rewriter is total.  Partial: only the repository's own partial operations are
    in reach of a proof; they are modelled panic-faithfully (an out-of-range index or an [unwrap]
    of [None] is the outcome [Panic]) and shown never to panic, for all inputs. *)
From Coq Require Import String List NArith Bool.
From IastRw Require Import Ast Generated Config Model Partial P_Partial.
Import ListNotations.

Theorem C13_invalid_args_never_panics : forall name args, invalid_args_p name args <> Panic.
Proof. exact invalid_args_no_panic. Qed.
Print Assumptions C13_invalid_args_never_panics.

(** ... and is the function the executable model (checked against the code) uses. *)
Theorem C13_invalid_args_is_the_model : forall name args, invalid_args_p name args = Val (invalid_args name args).
Proof. exact invalid_args_agrees. Qed.
Print Assumptions C13_invalid_args_is_the_model.

Theorem C13_this_argument_never_panics : forall args, first_this_p args <> Panic.
Proof. exact first_this_no_panic. Qed.
Print Assumptions C13_this_argument_never_panics.

Theorem C13_comment_url_never_panics : forall trimmed, url_of_comment_p trimmed <> Panic.
Proof. exact url_of_comment_no_panic. Qed.
Print Assumptions C13_comment_url_never_panics.

(** The traversals of the model are total functions of (fuel, tree): recursion is structural on the
    fuel, so the only way not to return a result is to run out of it -- which the correspondence
    check has never observed and which [default_fuel] (linear in the depth) is sized against. *)
Example C13_rewrite_returns :
  exists o, rewrite {| c_prefix := "t"; c_methods := []; c_lit_callers := []; c_verbosity := VOff; c_literals := true;
                       c_chain := false; c_comments := false; c_prefix_stmts := [] |} "f.js"
                    (mk KScript (1, 2)%N [nL []; nNul]) = o /\ o <> OutFuel.
Proof. eexists. split; [reflexivity | vm_compute; discriminate]. Qed.
