(** * C06 -- injected temporaries are hygienic. *)
From Coq Require Import String List NArith Bool.
From IastRw Require Import Ast Generated Config Model Directives Hygiene P_Local P_Directives.
Import ListNotations.

(** Allocation: a literal gets no temporary; anything else gets the temporary numbered by the
    counter; it is registered for declaration, assigned exactly once by the pushed assignment, and
    the counter moves past it (so no later allocation in the same expression can reuse it). *)
Theorem C06_allocation : forall c operand span ik a p id a' p',
  get_temporal c operand span ik a p = (id, a', p') ->
  (is_lit operand = true /\ id = None /\ a' = a /\ p' = p) \/
  (is_lit operand = false /\
   id = Some (mk_ident DUMMY (temp_name c (p_ctr p))) /\
   a_assigns a' = a_assigns a ++ [mk_assign span "=" (mk_binding_ident DUMMY (temp_name c (p_ctr p))) (assign_right operand ik)] /\
   a_args a' = a_args a /\
   p_ctr p' = N.succ (p_ctr p) /\
   In (temp_name c (p_ctr p)) (p_idents p') /\
   (forall x, In x (p_idents p) -> In x (p_idents p'))).
Proof. exact get_temporal_spec. Qed.
Print Assumptions C06_allocation.

(** Declaration: the injected [let] declares exactly the registered names, and the specification
    recognises it as the block's injected declaration when the names carry the reserved prefix. *)
Theorem C06_let_declares_registered_names : forall vp idents span,
  idents <> [] -> forallb (String.prefix vp) idents = true ->
  is_injected_let vp (mk_let span (map (fun name => mk_var_declarator span (mk_binding_ident DUMMY name)) idents)) = true.
Proof. exact injected_let_recognised. Qed.
Print Assumptions C06_let_declares_registered_names.

(** Refusal: a user identifier (real span) carrying the reserved prefix marks the provider, which
    makes the block visitor cancel the rewrite. *)
Theorem C06_reserved_user_identifier_marks : forall c lo hi cx sym opt p,
  is_dummy (lo, hi) = false -> String.prefix (var_prefix c) sym = true ->
  p_dup (register_variable c (Node (K KIdent lo hi) [cx; nS sym; opt]) p) = true.
Proof.
  intros c lo hi cx sym opt p Hd Hp. unfold register_variable. cbn [ident_sym nS span_of].
  rewrite Hd, Hp. reflexivity.
Qed.
Print Assumptions C06_reserved_user_identifier_marks.

(** Temporary names are injective in the counter: two different indices never share a name. *)
Theorem C06_temp_names_injective : forall c n m, temp_name c n = temp_name c m -> n = m.
Proof. exact P_Local.temp_name_inj. Qed.
Print Assumptions C06_temp_names_injective.

(** ** Assigned before read, in the core semantics of C01 (coq/Sem.v): for every world, every configuration without bare-call
    methods and with the plus operator, every source expression of the core language and every counter value, the outcome
    of the rewritten expression and the history it leaves do not depend on what the temporaries held when it started --
    every temporary it reads it has assigned before.  (That it writes only the temporaries it allocated is part of
    C01_core_equivalence.) *)
From IastRw Require Import Sem P_Sem.
Theorem C06_core_assigned_before_read :
  forall (respond : hist -> event -> resp) (ustore : hist -> string -> value)
         (instr lit_ok awc : string -> bool) (e : expr),
    (forall f, awc f = false) -> src e ->
    forall c (h : hist) (t1 t2 : tenv),
      let e' := fst (rw instr lit_ok awc true e c) in
      fst (eval respond ustore e' (h, t1)) = fst (eval respond ustore e' (h, t2)) /\
      fst (snd (eval respond ustore e' (h, t1))) = fst (snd (eval respond ustore e' (h, t2))).
Proof.
  intros respond ustore instr lit_ok awc e NA Hs.
  exact (rw_ignores_initial_temporaries respond ustore instr lit_ok awc NA (plus_on:=true) eq_refl e Hs).
Qed.
Print Assumptions C06_core_assigned_before_read.
