(** * C07 -- directive prologues survive in every function and in the file.
    Only statements, each closed by [exact] of a lemma proved elsewhere, with its assumptions. *)
From Coq Require Import String List NArith Bool.
From IastRw Require Import Ast Generated Config Model Directives P_Directives.
Import ListNotations.

(** The operation visitor keeps every directive a directive and never creates one: for every
    configuration, fuel, context and state (induction on the traversal, no bound on the tree). *)
Theorem C07_visitor_keeps_directives : forall c fuel root n s n' s',
  op_visit c fuel root n s = Some (n', s') -> is_directive n' = is_directive n.
Proof. exact op_visit_directive. Qed.
Print Assumptions C07_visitor_keeps_directives.

(** Hence the visited statement list has a directive prologue of the same length and the same
    number of statements after it. *)
Theorem C07_prologue_length_kept : forall c fuel root stmts s stmts' s',
  map_st (op_visit c fuel root) stmts s = Some (stmts', s') ->
  length (directives_of stmts') = length (directives_of stmts) /\
  length (after_directives stmts') = length (after_directives stmts).
Proof. exact map_st_directives. Qed.
Print Assumptions C07_prologue_length_kept.

(** The injected [let] is placed right after the whole directive prologue, which is unchanged. *)
Theorem C07_let_after_directives : forall idents span stmts,
  directives_of (insert_let idents span stmts) = directives_of stmts /\
  after_directives (insert_let idents span stmts) =
    match idents with
    | [] => after_directives stmts
    | _ => mk_let span (map (fun name => mk_var_declarator span (mk_binding_ident DUMMY name)) idents)
           :: after_directives stmts
    end.
Proof. exact insert_let_directives. Qed.
Print Assumptions C07_let_after_directives.

(** The file prologue is placed right after the file's directive prologue, which is unchanged
    (the hypothesis -- the prologue does not itself start with a string statement -- is checked on
    the real prologue of every configuration by the check). *)
Theorem C07_file_prologue_after_directives : forall c body,
  match c_prefix_stmts c with [] => True | x :: _ => is_directive x = false end ->
  directives_of (insert_prologue c body) = directives_of body /\
  after_directives (insert_prologue c body) = c_prefix_stmts c ++ after_directives body.
Proof. exact insert_prologue_directives. Qed.
Print Assumptions C07_file_prologue_after_directives.

(** Non-vacuity: a body with two directives, one temporary. *)
Example C07_example :
  let d1 := mk KExprStmt (1, 9)%N [mk KStr (1, 8)%N [nS "other"; nS "'other'"]] in
  let d2 := mk KExprStmt (10, 23)%N [mk KStr (10, 22)%N [nS "use strict"; nS "'use strict'"]] in
  let r := mk_return (24, 30)%N (mk_ident (31, 32)%N "x") in
  directives_of (insert_let ["__datadog_t_0"%string] (0, 40)%N [d1; d2; r]) = [d1; d2].
Proof. vm_compute. reflexivity. Qed.
