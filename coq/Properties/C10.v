(** * C10 -- chained source map is the exact composition; trailer handling. *)
From Coq Require Import String List NArith ZArith Bool.
From IastRw Require Import SrcMap P_SrcMap.
Import ListNotations.

(** When every token of the rewrite map resolves in the original map, looking a generated position
    up in the chained map is looking it up in the rewrite map and then in the original map:
    for all maps and all positions (no bound on sizes). *)
Theorem C10_chain_is_composition : forall (B : Type) (m1 : list (@token pos)) (m2 : list (@token B)) p,
  (forall t, In t m1 -> resolves m2 t = true) ->
  lookup (chain m1 m2) p = resolve2 m1 m2 p.
Proof. exact @chain_is_composition. Qed.
Print Assumptions C10_chain_is_composition.

(** In general, tokens whose source position precedes every token of the original map are dropped,
    and the chained map is the composition restricted to the tokens that resolve. *)
Theorem C10_chain_general : forall (B : Type) (m1 : list (@token pos)) (m2 : list (@token B)) p,
  lookup (chain m1 m2) p = resolve2 (filter (resolves m2) m1) m2 p.
Proof. exact @chain_lookup. Qed.
Print Assumptions C10_chain_general.

(** The composition is exact iff nothing is dropped before the position; dropping is real
    (so the first theorem's hypothesis cannot be removed). *)
Example C10_dropped_token_refuted :
  let m1 := [((0, 0), (5, 0)); ((0, 4), (0, 0))]%N in     (* second token points before the original map's first token *)
  let m2 := [((3, 0), 7)]%N in
  lookup (chain m1 m2) (0, 9)%N <> resolve2 m1 m2 (0, 9)%N.
Proof. vm_compute. discriminate. Qed.

(** Every token of the chained map keeps the generated position of a rewrite-map token and carries
    the data of the original-map token it resolves to: nothing is invented. *)
Theorem C10_chain_invents_nothing : forall (B : Type) (m1 : list (@token pos)) (m2 : list (@token B)) t,
  In t (chain m1 m2) -> exists t1, In t1 m1 /\ fst t = fst t1 /\ retarget m2 t1 = Some t.
Proof. exact @chain_keys. Qed.
Print Assumptions C10_chain_invents_nothing.

(** Original maps may contain segments without a source; a rewrite token that resolves to one is dropped
    (the composition is undefined there), and the two statements above carry over. *)
Theorem C10_chain_with_sourceless_segments : forall (B : Type) (m1 : list (@token pos)) (m2 : list (@token (option B))) p,
  lookup (chain_opt m1 m2) p = unwrap_tok (resolve2 (filter (resolves_src m2) m1) m2 p).
Proof. exact @chain_opt_lookup. Qed.
Print Assumptions C10_chain_with_sourceless_segments.

Theorem C10_chain_with_sourceless_invents_nothing : forall (B : Type) (m1 : list (@token pos)) (m2 : list (@token (option B))) k b,
  In (k, b) (chain_opt m1 m2) -> exists t1, In t1 m1 /\ k = fst t1 /\ retarget m2 t1 = Some (k, Some b).
Proof. exact @chain_opt_keys. Qed.
Print Assumptions C10_chain_with_sourceless_invents_nothing.

(** ** Which comment supplies the original map.  The comment store is iterated in an arbitrary order; the
    selection loop of [extract_source_map] (its comparison is read from the code on every run) returns the
    qualifying comment at the greatest position, and every iteration order gives the same result. *)
From IastRw Require Import Comments P_Comments.

Theorem C10_last_comment_wins : forall (q : string -> bool) (l : list comment),
  match select q l with
  | Some c => In c l /\ q (snd c) = true /\ forall p t, In (p, t) l -> q t = true -> (p <= fst c)%N
  | None => forall p t, In (p, t) l -> q t = false
  end.
Proof. exact select_is_last. Qed.
Print Assumptions C10_last_comment_wins.

Theorem C10_comment_choice_is_order_independent : forall (q : string -> bool) (l l' : list comment),
  Permutation.Permutation l l' ->
  (forall p t t', In (p, t) l -> In (p, t') l -> q t = true -> q t' = true -> t = t') ->
  select q l = select q l'.
Proof. exact select_order_independent. Qed.
Print Assumptions C10_comment_choice_is_order_independent.
