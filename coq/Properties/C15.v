(** * C15 -- reported propagation metrics equal the instrumentation actually emitted.
    Only statements, each closed by [exact] of a lemma proved elsewhere, with its assumptions. *)
From Coq Require Import String List NArith Bool.
From IastRw Require Import Ast Generated Config Model HookSites WfTree P_Telemetry P_Count P_CountGlobal P_CountProgram.
Import ListNotations.

(** With verbosity off the count stays zero and no breakdown is accumulated. *)
Theorem C15_off_counts_nothing : forall st tag t,
  t_count (update_status VOff st tag t) = t_count t /\
  t_tags (update_status VOff st tag t) = t_tags t.
Proof. exact update_status_off_count. Qed.
Print Assumptions C15_off_counts_nothing.

(** An inspected but un-instrumented operation leaves count, tags and status untouched
    (this is the statement the pinned commit violated; see known_findings.json, fixed). *)
Theorem C15_unmodified_operation_not_counted : forall v tag t,
  update_status v NotModified tag t = t.
Proof. exact update_status_not_modified. Qed.
Print Assumptions C15_unmodified_operation_not_counted.

(** Each instrumented operation is counted exactly once and tagged exactly once (debug). *)
Theorem C15_instrumented_operation_counted_once : forall v tag t,
  t_status t <> Cancelled ->
  let t' := update_status v Modified tag t in
  t_status t' = Modified /\
  t_count t' = (if match v with VOff => true | _ => false end then t_count t else N.succ (t_count t)) /\
  t_tags t' = (match v, tag with VDebug, Some g => g :: t_tags t | _, _ => t_tags t end).
Proof. exact update_status_modified. Qed.
Print Assumptions C15_instrumented_operation_counted_once.

(** ** Every instrumented operation adds exactly one reference to the hook namespace
    ([ns_count]: the number of identifiers [_ddiast] in a tree), whatever the operands, the
    accumulated state and the configuration. *)
Theorem C15_binary_adds_one_reference : forall c lo hi opn l r p out p',
  (is_ident l = true -> ns_count l = 0) -> (is_ident r = true -> ns_count r = 0) ->
  binary_transform c (Node (K KBin lo hi) [opn; l; r]) p = (Some out, p') ->
  ns_count out = 1 + ns_count (Node (K KBin lo hi) [opn; l; r]).
Proof.
  intros c lo hi opn l r p out p'.
  exact (binary_transform_ns (stop:=no_stop) (kappa:=1) (okname:=fun _ => True) (fun _ _ _ => eq_refl) c lo hi opn l r p out p' I).
Qed.
Print Assumptions C15_binary_adds_one_reference.

Theorem C15_template_adds_one_reference : forall c e p out p',
  template_transform c e p = (Some out, p') -> ns_count out = 1 + ns_count e.
Proof.
  intros c e p out p'.
  exact (template_transform_ns (stop:=no_stop) (kappa:=1) (okname:=fun _ => True) (fun _ _ _ => eq_refl) c e p out p' I).
Qed.
Print Assumptions C15_template_adds_one_reference.

Theorem C15_call_adds_one_reference : forall c lo hi cx callee args targs p out tag p',
  is_ns_member callee = false ->          (* the callee is not itself a member of the hook namespace *)
  (ns_count cx = 0 /\ ns_count targs = 0) ->
  (is_ident callee = true -> ns_count callee = 0) ->
  call_transform c (Node (K KCall lo hi) [cx; callee; Node Lst args; targs]) p = (Some (out, tag), p') ->
  ns_count out = 1 + ns_count (Node (K KCall lo hi) [cx; callee; Node Lst args; targs]).
Proof.
  intros c lo hi cx callee args targs p out tag p'.
  exact (call_transform_ns (stop:=no_stop) (kappa:=1) (okname:=fun _ => True) (fun _ _ _ => eq_refl)
           c lo hi cx callee args targs p out tag p' (fun _ _ _ => I)).
Qed.
Print Assumptions C15_call_adds_one_reference.

Theorem C15_compound_assignment_adds_one_reference : forall c lo hi opn lhs rhs p out p',
  is_ns_member (if is_kind KParen lhs then peel_parens lhs else lhs) = false ->   (* nor is the target *)
  ns_count opn = 0 -> (is_ident rhs = true -> ns_count rhs = 0) ->
  (forall lhs' hoisted p0, hoist_target c lhs (lo, hi) acc0 p = (lhs', hoisted, p0) -> ns_count lhs' = 0) ->
  assign_transform c (Node (K KAssign lo hi) [opn; lhs; rhs]) p = (Some out, p') ->
  ns_count out = 1 + ns_count (Node (K KAssign lo hi) [opn; lhs; rhs]).
Proof.
  intros c lo hi opn lhs rhs p out p'.
  exact (assign_transform_ns (stop:=no_stop) (kappa:=1) (okname:=fun _ => True) (fun _ _ _ => eq_refl)
           c lo hi opn lhs rhs p out p' I).
Qed.
Print Assumptions C15_compound_assignment_adds_one_reference.

(** ** Global statement for one block region.  For every configuration whose verbosity is not OFF,
    every fuel, and every tree of the fragment without optional chaining that satisfies the shape
    conditions [wf_all] (checked on every parsed input by the check) and does not mention the hook
    namespace: whatever the operation visitor returns, the count has moved by exactly the number of
    hook references now in the tree, and the file is not cancelled. *)
Theorem C15_count_equals_references_emitted : forall c, c_verbosity c <> VOff ->
  forall fuel root n s n' s',
    op_visit c fuel root n s = Some (n', s') ->
    wf_all n = true /\ ns_count n = 0 ->
    t_status (o_t s) <> Cancelled ->
    (N.of_nat (ns_count n') + t_count (o_t s) = t_count (o_t s'))%N /\ t_status (o_t s') <> Cancelled.
Proof. exact op_visit_count_ns. Qed.
Print Assumptions C15_count_equals_references_emitted.

(** The names registered for declaration are always temporaries' names (never the namespace). *)
Theorem C15_registered_names_are_temporaries : forall c fuel root n s n' s',
  op_visit c fuel root n s = Some (n', s') -> all_temp (o_p s) -> all_temp (o_p s').
Proof. exact op_visit_temp. Qed.
Print Assumptions C15_registered_names_are_temporaries.

(** ** The whole file.  For every configuration whose verbosity is not OFF and every Script/Module tree of
    the fragment (well-formed, no optional chaining, no mention of the hook namespace): if the rewriter
    accepts the file, the reported count is exactly the number of references to the hook namespace in the
    tree handed to the printer, minus those of the configured prologue (present iff the file is Modified).
    Unbounded: induction over the block visitor, the operation visitor inside each block (previous theorem,
    in two instances of one generic additive measure) and the injected declarations. *)
Theorem C15_file_count_equals_references_emitted : forall c file k lo hi body interp ast t,
  c_verbosity c <> VOff ->
  (k = KScript \/ k = KModule) ->
  wf_all (Node (K k lo hi) [Node Lst body; interp]) = true /\ ns_count (Node (K k lo hi) [Node Lst body; interp]) = 0 ->
  rewrite c file (Node (K k lo hi) [Node Lst body; interp]) = OutOk ast t ->
  N.of_nat (ns_count ast) =
    (t_count t + (if status_eqb (t_status t) Modified then N.of_nat (ns_count_list (c_prefix_stmts c)) else 0))%N.
Proof. exact rewrite_count. Qed.
Print Assumptions C15_file_count_equals_references_emitted.

(** Every nested block left alone by the operation visitor is still clean, well-formed input when the
    block visitor reaches it ([bad]: the number of maximal nested blocks / expression-bodied arrows that are not). *)
Theorem C15_nested_blocks_stay_clean : forall c, c_verbosity c <> VOff ->
  forall fuel root n s n' s',
    op_visit c fuel root n s = Some (n', s') ->
    wf_all n = true /\ ns_count n = 0 -> t_status (o_t s) <> Cancelled ->
    bad n' = 0 /\ t_status (o_t s') <> Cancelled.
Proof. exact op_visit_bad. Qed.
Print Assumptions C15_nested_blocks_stay_clean.

(** Non-vacuity: [{ a + b; }] satisfies the hypotheses, is accepted and modified, with one reference counted. *)
Example C15_file_example :
  let cfg := {| c_prefix := "t"; c_methods := [{| m_src := gen_DD_PLUS_OPERATOR; m_dst := "plusOperator"; m_operator := true; m_awc := false |}];
                c_lit_callers := []; c_verbosity := VInformation; c_literals := true;
                c_chain := false; c_comments := false; c_prefix_stmts := [] |} in
  let prog := mk KScript (1, 12)%N
                [nL [mk_block (1, 11)%N [mk KExprStmt (3, 9)%N [mk_bin (3, 8)%N "+" (mk_ident (3, 4)%N "a") (mk_ident (7, 8)%N "b")]]]; nNul] in
  wf_all prog = true /\ ns_count prog = 0 /\
  match rewrite cfg "f.js" prog with
  | OutOk ast t => t_status t = Modified /\ t_count t = 1%N /\ ns_count ast = 1
  | _ => False
  end.
Proof. vm_compute. repeat split; reflexivity. Qed.

(** The tags the code uses for the three operators (regenerated from operation_transform_visitor.rs on every run) are the
    documented ones, which the specification ([HookSites.tag_of_operation]) is written with. *)
Theorem C15_operator_tags_are_documented :
  gen_ADD_TAG = documented_add_tag /\ gen_ADD_ASSIGN_TAG = documented_add_assign_tag /\ gen_TPL_TAG = documented_tpl_tag.
Proof. repeat split; reflexivity. Qed.
Print Assumptions C15_operator_tags_are_documented.
