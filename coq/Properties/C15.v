(** * C15 -- reported propagation metrics equal the instrumentation actually emitted.
    Only statements, each closed by [exact] of a lemma proved elsewhere, with its assumptions. *)
From Coq Require Import String List NArith Bool.
From IastRw Require Import Ast Generated Config Model P_Telemetry.

(** With verbosity off the count stays zero and no breakdown is accumulated. *)
Theorem C15_off_counts_nothing : forall st tag t,
  t_count (update_status VOff st tag t) = t_count t /\
  t_tags (update_status VOff st tag t) = t_tags t.
Proof. exact update_status_off_count. Qed.
Print Assumptions C15_off_counts_nothing.

(** An inspected but un-instrumented operation leaves count, tags and status untouched
    (this is the statement the pinned commit violated; see known_findings.json, fixed). *)
Theorem C15_unmodified_operation_not_counted : forall v tag t,
  update_status v NotModified tag t = t.
Proof. exact update_status_not_modified. Qed.
Print Assumptions C15_unmodified_operation_not_counted.

(** Each instrumented operation is counted exactly once and tagged exactly once (debug). *)
Theorem C15_instrumented_operation_counted_once : forall v tag t,
  t_status t <> Cancelled ->
  let t' := update_status v Modified tag t in
  t_status t' = Modified /\
  t_count t' = (if match v with VOff => true | _ => false end then t_count t else N.succ (t_count t)) /\
  t_tags t' = (match v, tag with VDebug, Some g => g :: t_tags t | _, _ => t_tags t end).
Proof. exact update_status_modified. Qed.
Print Assumptions C15_instrumented_operation_counted_once.
