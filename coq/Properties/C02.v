(** * C02 -- rewriting only adds instrumentation: erasing it gives back the input. *)
From Coq Require Import String List NArith Bool.
From IastRw Require Import Ast Generated Config Model HookSites Erase P_Hooks P_Erase.
Import ListNotations.

(** Erasing a hook call as the model builds it yields its (erased) first argument, whatever the
    remaining arguments, the replacement name and the span. *)
Theorem C02_hook_call_erased : forall vp e args name span,
  erase_node vp (dd_call e args name span) = erase_node vp e.
Proof. exact erase_node_dd_call. Qed.
Print Assumptions C02_hook_call_erased.

(** A tree that mentions neither the hook namespace nor the reserved prefix and has no block with
    swc's dummy span is a fixed point of the eraser: code the rewriter did not touch is returned as is. *)
Theorem C02_untouched_code_is_a_fixed_point : forall vp n,
  String.length vp <> 0 -> no_reserved vp n = true -> erase_node vp n = n.
Proof. exact erase_node_clean. Qed.
Print Assumptions C02_untouched_code_is_a_fixed_point.

(** The eraser never looks at spans: equal-up-to-spans trees stay so ([node_eqb_nospan] is an
    equivalence, so the validator's verdict does not depend on which representative is compared). *)
Theorem C02_nospan_refl : forall n, node_eqb_nospan n n = true.
Proof. exact node_eqb_nospan_refl. Qed.
Print Assumptions C02_nospan_refl.
