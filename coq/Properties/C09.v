(** * C09 -- the embedded source map resolves rewritten positions to the right original place.
    What is the repository's own here is small (spans handed to the printer); what the checks rely
    on -- and what is proved -- is the decoder and the lookup they use to read the real map. *)
From Coq Require Import String List NArith ZArith Bool.
From IastRw Require Import SrcMap P_SrcMap.
Import ListNotations.

(** Base64-VLQ: decoding the digits of an encoded value gives the value back and leaves what follows
    untouched, for every integer (no bound). *)
Theorem C09_vlq_roundtrip : forall z rest, vlq_decode_digits (vlq_digits z ++ rest) = Some (z, rest).
Proof. exact vlq_roundtrip. Qed.
Print Assumptions C09_vlq_roundtrip.

(** A whole segment (any number of fields) decodes to exactly the encoded fields. *)
Theorem C09_segment_roundtrip : forall zs,
  vlq_all (S (length (flat_map vlq_digits zs))) (flat_map vlq_digits zs) = Some zs.
Proof. exact vlq_segment_roundtrip. Qed.
Print Assumptions C09_segment_roundtrip.

(** Resolving a generated position: on a map sorted by generated position, [lookup] returns the
    greatest mapping at or before the position, and nothing iff every mapping is after it. *)
Theorem C09_lookup_is_glb : forall (A : Type) (m : list (@token A)) p,
  sorted m ->
  match lookup m p with
  | Some r => is_glb m p r
  | None => forall t, In t m -> ple (fst t) p = false
  end.
Proof. exact @lookup_glb. Qed.
Print Assumptions C09_lookup_is_glb.

Example C09_lookup_example :
  lookup [((0, 0), 1); ((0, 5), 2); ((2, 3), 3)]%N (1, 9)%N = Some ((0, 5), 2)%N.
Proof. reflexivity. Qed.
