(** * C12 -- unmodified files are reported as such and handed back byte for byte. *)
From Coq Require Import String List NArith Bool.
From IastRw Require Import Ast Generated Config Model P_Program P_Inert P_Telemetry.
Import ListNotations.

(** The prologue is inserted exactly when the file is modified. *)
Theorem C12_prologue_iff_modified : forall c fuel k lo hi body interp ast t,
  (k = KScript \/ k = KModule) ->
  program_visit c fuel (Node (K k lo hi) [Node Lst body; interp]) = Some (ast, t) ->
  exists body' interp',
    map_st (block_visit c fuel) [Node Lst body; interp] t_init = Some ([Node Lst body'; interp'], t) /\
    ast = Node (K k lo hi)
               [Node Lst (if status_eqb (t_status t) Modified then insert_prologue c body' else body'); interp'].
Proof. exact program_visit_shape. Qed.
Print Assumptions C12_prologue_iff_modified.

(** An accepted result is Modified or NotModified, never anything else. *)
Theorem C12_result_status : forall c file prog ast t,
  rewrite c file prog = OutOk ast t -> t_status t = Modified \/ t_status t = NotModified.
Proof. exact rewrite_ok_status. Qed.
Print Assumptions C12_result_status.

(** Only an instrumented operation can make the status Modified: an operation that was inspected
    and left alone never changes status, count or tags. *)
Theorem C12_untouched_operation_keeps_status : forall v tag t, update_status v NotModified tag t = t.
Proof. exact update_status_not_modified. Qed.
Print Assumptions C12_untouched_operation_keeps_status.
