(** * C12 -- unmodified files are reported as such and handed back byte for byte. *)
From Coq Require Import String List NArith Bool.
From IastRw Require Import Ast Generated Config Model P_Program P_Inert P_Telemetry.
Import ListNotations.

(** The prologue is inserted exactly when the file is modified. *)
Theorem C12_prologue_iff_modified : forall c fuel k lo hi body interp ast t,
  (k = KScript \/ k = KModule) ->
  program_visit c fuel (Node (K k lo hi) [Node Lst body; interp]) = Some (ast, t) ->
  exists body' interp',
    map_st (block_visit c fuel) [Node Lst body; interp] t_init = Some ([Node Lst body'; interp'], t) /\
    ast = Node (K k lo hi)
               [Node Lst (if status_eqb (t_status t) Modified then insert_prologue c body' else body'); interp'].
Proof. exact program_visit_shape. Qed.
Print Assumptions C12_prologue_iff_modified.

(** An accepted result is Modified or NotModified, never anything else. *)
Theorem C12_result_status : forall c file prog ast t,
  rewrite c file prog = OutOk ast t -> t_status t = Modified \/ t_status t = NotModified.
Proof. exact rewrite_ok_status. Qed.
Print Assumptions C12_result_status.

(** Only an instrumented operation can make the status Modified: an operation that was inspected
    and left alone never changes status, count or tags. *)
Theorem C12_untouched_operation_keeps_status : forall v tag t, update_status v NotModified tag t = t.
Proof. exact update_status_not_modified. Qed.
Print Assumptions C12_untouched_operation_keeps_status.

(** ** Global statements (induction over the whole rewrite, optional chains included for the first) *)
From IastRw Require Import HookSites WfTree P_Status.

(** With telemetry on, for every program and configuration: a NotModified result has count 0, a
    Modified one has count at least 1 (status and count never disagree). *)
Theorem C12_status_and_count_agree : forall c file prog ast t,
  c_verbosity c <> VOff ->
  rewrite c file prog = OutOk ast t ->
  (t_status t = NotModified -> t_count t = 0%N) /\ (t_status t = Modified -> (1 <= t_count t)%N).
Proof. exact rewrite_status_count. Qed.
Print Assumptions C12_status_and_count_agree.

(** A file is reported NotModified exactly when the tree handed to the printer contains no reference to
    the hook namespace -- neither a hook call nor the prologue (well-formed Script/Module without
    optional chaining that does not mention the namespace, telemetry on). *)
Theorem C12_not_modified_iff_no_hook_reference : forall c file k lo hi body interp ast t,
  c_verbosity c <> VOff ->
  (k = KScript \/ k = KModule) ->
  wf_all (Node (K k lo hi) [Node Lst body; interp]) = true /\ ns_count (Node (K k lo hi) [Node Lst body; interp]) = 0 ->
  rewrite c file (Node (K k lo hi) [Node Lst body; interp]) = OutOk ast t ->
  (t_status t = NotModified <-> ns_count ast = 0) /\ (t_status t = Modified \/ t_status t = NotModified).
Proof. exact rewrite_notmodified_iff_no_reference. Qed.
Print Assumptions C12_not_modified_iff_no_hook_reference.
