(** * C04 -- every enabled operation inside function bodies and blocks is instrumented. *)
From Coq Require Import String List NArith Bool.
From IastRw Require Import Ast Generated Config Model HookSites Sites P_Hooks P_Local.
Import ListNotations.

(** A [+] whose left (right) operand, after its own rewriting, is neither a literal nor a [+] left
    in place is always wrapped -- whatever the other operand, the provider state and the span.
    (Children are rewritten first, so a non-literal-only sum operand has become a hook call by then.) *)
Theorem C04_plus_fires_on_left_operand : forall c lo hi opn l r p,
  is_lit l = false -> is_plus_bin l = false ->
  exists out p', binary_transform c (Node (K KBin lo hi) [opn; l; r]) p = (Some out, p').
Proof. exact binary_fires_left. Qed.
Print Assumptions C04_plus_fires_on_left_operand.

Theorem C04_plus_fires_on_right_operand : forall c lo hi opn l r p,
  is_lit r = false -> is_plus_bin r = false ->
  exists out p', binary_transform c (Node (K KBin lo hi) [opn; l; r]) p = (Some out, p').
Proof. exact binary_fires_right. Qed.
Print Assumptions C04_plus_fires_on_right_operand.

(** The wrapper is a hook call with the operation's own span: the key under which the
    specification ([Sites.hook_keys]) looks the site up. *)
Theorem C04_emitted_hook_is_recognised : forall e args name span,
  hook_call (dd_call e args name span) = Some (name, mk_arg e :: args) /\
  span_of (dd_call e args name span) = span.
Proof. intros. split; [apply hook_call_dd_call | destruct span; reflexivity]. Qed.
Print Assumptions C04_emitted_hook_is_recognised.

(** The property names the methods that are instrumented on a string-literal receiver: the list the code carries
    (regenerated from csi_methods.rs on every run) is that list. *)
Theorem C04_literal_receiver_methods_are_documented : gen_lit_callers = documented_lit_callers.
Proof. reflexivity. Qed.
Print Assumptions C04_literal_receiver_methods_are_documented.
