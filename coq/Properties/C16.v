(** * C16 -- rewriting is deterministic and independent of earlier calls.
    A rewriter instance keeps its resolved configuration and nothing else; in the model a call is
    [rewrite cfg file tree], a function.  The theorem below is thin by construction (it says that the
    model has no hidden state); the property is carried by the history correspondence of the check,
    which compares every call of a history on the real code with a fresh single call in a new process. *)
From Coq Require Import String List NArith Bool.
From IastRw Require Import Ast Generated Config Model.
Import ListNotations.

Definition rstate := config.
Definition call := (string * node)%type.
Definition step (s : rstate) (c : call) : rstate * outcome := (s, rewrite s (fst c) (snd c)).

Fixpoint run (s : rstate) (h : list call) : rstate * list outcome :=
  match h with
  | [] => (s, [])
  | c :: r => let '(s1, o) := step s c in let '(s2, os) := run s1 r in (s2, o :: os)
  end.

Lemma run_spec s h : run s h = (s, map (fun c => rewrite s (fst c) (snd c)) h).
Proof. induction h as [|c r IH]; simpl; [reflexivity|]. rewrite IH. reflexivity. Qed.

(** Whatever was rewritten before (and however often), the n-th result of a history is the result
    of a fresh single call with the same configuration, and the configuration never changes. *)
Theorem C16_history_independent : forall s before c after,
  fst (run s (before ++ c :: after)) = s /\
  nth_error (snd (run s (before ++ c :: after))) (length before) = Some (rewrite s (fst c) (snd c)).
Proof.
  intros s before c after. rewrite run_spec. simpl. split; [reflexivity|].
  rewrite map_app. simpl. rewrite nth_error_app2; rewrite map_length; [|apply le_n].
  rewrite PeanoNat.Nat.sub_diag. reflexivity.
Qed.
Print Assumptions C16_history_independent.

(** Temporary numbering restarts in every block and after every top-level operation: the provider
    of a block starts from [p_init] whatever was visited before. *)
Theorem C16_block_provider_is_fresh : p_ctr p_init = 0%N /\ p_idents p_init = [] /\ p_dup p_init = false.
Proof. repeat split; reflexivity. Qed.
Print Assumptions C16_block_provider_is_fresh.

(** The one place where the code iterates a hash map whose order changes from run to run (the comment store):
    the result does not depend on that order (P_Comments.v; the comparison is read from the code on every run). *)
From IastRw Require Import Comments P_Comments.
Theorem C16_comment_store_order_is_irrelevant : forall (q : string -> bool) (l l' : list comment),
  Permutation.Permutation l l' ->
  (forall p t t', In (p, t) l -> In (p, t') l -> q t = true -> q t' = true -> t = t') ->
  select q l = select q l'.
Proof. exact select_order_independent. Qed.
Print Assumptions C16_comment_store_order_is_irrelevant.
