(** * C11 -- stack traces and locations of rewritten files report original file and line. *)
From Coq Require Import String List NArith ZArith Bool.
From IastRw Require Import SrcMap P_SrcMap JsSide P_JsSide.
Import ListNotations.

(** [SourceMap.findEntry] (binary search, modelled with the loop on explicit fuel = number of
    mappings) returns a mapping with the greatest generated position at or before the queried one,
    and nothing iff every mapping lies after it -- for every sorted mapping list and position. *)
Theorem C11_findEntry_is_glb : forall (A : Type) (m : list (@token A)) p, sorted m ->
  match find_entry m p with
  | Some r => In r m /\ ple (fst r) p = true /\
              forall t', In t' m -> ple (fst t') p = true -> ple (fst t') (fst r) = true
  | None => forall t, In t m -> ple (fst t) p = false
  end.
Proof. exact @find_entry_glb. Qed.
Print Assumptions C11_findEntry_is_glb.

(** The rewritten-maps cache as a state machine: after any history of rewrites the cache holds, for
    every file, the map of the most recent rewrite of that file if it was modified, and nothing if
    the most recent rewrite left the file unmodified. *)
Theorem C11_cache_follows_last_rewrite : forall (M : Type) (h : list (@rewrite_event M)) f,
  cache_get (fold_left cache_step h []) f = last_rewrite_map h f.
Proof. exact @cache_last_rewrite. Qed.
Print Assumptions C11_cache_follows_last_rewrite.

(** A lookup in a file the cache knows nothing about is the identity. *)
Theorem C11_unknown_file_identity : forall (cache : list (string * list (@token (string * N * N)))) f line col,
  cache_get cache f = None -> path_and_line cache f line col = (f, line, col).
Proof. exact unknown_file_identity. Qed.
Print Assumptions C11_unknown_file_identity.
