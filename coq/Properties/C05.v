(** * C05 -- configuration honoured; only configured hooks are ever referenced. *)
From Coq Require Import String List NArith Bool.
From IastRw Require Import Ast Generated Config ToConfig Model P_Inert P_Config.
Import ListNotations.

(** With a configuration that enables nothing (in particular an empty method list) every accepted
    input is reported not modified, nothing is counted, no tag is recorded: for every program. *)
Theorem C05_nothing_enabled_not_modified : forall c, inert c -> forall file prog ast t,
  rewrite c file prog = OutOk ast t ->
  t_status t = NotModified /\ t_count t = 0%N /\ t_tags t = [].
Proof. exact rewrite_inert. Qed.
Print Assumptions C05_nothing_enabled_not_modified.

Theorem C05_empty_method_list_is_inert : forall c, c_methods c = [] -> inert c.
Proof. exact empty_methods_inert. Qed.
Print Assumptions C05_empty_method_list_is_inert.

(** Every name the transformations dereference on the hook namespace is a configured replacement name. *)
Theorem C05_method_hook_name_configured : forall c name m,
  csi_get c name = Some m -> In (m_dst m) (configured_dsts c) /\ m_src m = name /\ m_operator m = false.
Proof. exact csi_get_configured. Qed.
Print Assumptions C05_method_hook_name_configured.

Theorem C05_plus_hook_name_configured : forall c,
  plus_enabled c = true -> In (plus_name c) (configured_dsts c).
Proof. exact plus_name_configured. Qed.
Print Assumptions C05_plus_hook_name_configured.

Theorem C05_tpl_hook_name_configured : forall c,
  tpl_enabled c = true -> In (tpl_name c) (configured_dsts c).
Proof. exact tpl_name_configured. Qed.
Print Assumptions C05_tpl_hook_name_configured.

(** Global form.  For every configuration (every verbosity), every fuel and every well-formed tree of the fragment
    without optional chaining that does not mention the hook namespace: in whatever the operation visitor returns,
    every member expression on the hook namespace -- at any depth -- is [_ddiast.<name>] with [name] one of the
    configured replacement names.  (An instance of the generic measure theorem: P_Names.v.) *)
From IastRw Require Import HookSites WfTree P_CountGlobal P_Names.
Theorem C05_only_configured_names_are_dereferenced : forall c fuel root n s n' s',
  op_visit c fuel root n s = Some (n', s') ->
  wf_all n = true /\ ns_count n = 0 ->
  t_status (o_t s) <> Cancelled ->
  Forall (fun m => exists lo hi obj prop name,
            m = Node (K KMember lo hi) [obj; prop] /\ ident_name_sym prop = Some name /\
            In name (configured_dsts c)) (ns_members n').
Proof. exact op_visit_only_configured. Qed.
Print Assumptions C05_only_configured_names_are_dereferenced.

(** The same for the rewriter's result.  For every Script / Module of that fragment accepted by [rewrite], under every
    configuration whose own prologue does not dereference the namespace with another name (the real prologue does not
    dereference it at all: evaluated on every run): every member expression on the hook namespace in the tree handed
    to the printer -- prologue, nested blocks and functions included -- is [_ddiast.<name>] with a configured [name]. *)
From IastRw Require Import P_NamesProgram.
Theorem C05_rewrite_only_configured_names : forall c file k lo hi body interp ast t,
  (k = KScript \/ k = KModule) ->
  wf_all (Node (K k lo hi) [Node Lst body; interp]) = true /\ ns_count (Node (K k lo hi) [Node Lst body; interp]) = 0 ->
  badname_list (configured c) (c_prefix_stmts c) = 0 ->
  rewrite c file (Node (K k lo hi) [Node Lst body; interp]) = OutOk ast t ->
  Forall (fun m => exists mlo mhi obj prop name,
            m = Node (K KMember mlo mhi) [obj; prop] /\ ident_name_sym prop = Some name /\
            In name (configured_dsts c)) (ns_members ast).
Proof. exact rewrite_only_configured. Qed.
Print Assumptions C05_rewrite_only_configured_names.

(** Non-vacuity: a sum and a method call under a configuration that renames both. *)
Example C05_names_example :
  let c := {| c_prefix := "t"%string; c_methods := [{| m_src := "plusOperator"%string; m_dst := "add"%string; m_operator := true; m_awc := false |};
                                             {| m_src := "trim"%string; m_dst := "strTrim"%string; m_operator := false; m_awc := false |}];
              c_lit_callers := []; c_verbosity := VOff; c_literals := true; c_chain := false; c_comments := false; c_prefix_stmts := [] |} in
  let call := mk_call (1, 9)%N (mk_member (1, 7)%N (mk_ident (1, 2)%N "a"%string) (mk_ident_name (3, 7)%N "trim"%string)) [] in
  let e := mk_bin (1, 13)%N "+"%string call (mk_ident (12, 13)%N "b"%string) in
  match op_visit c 20 true e {| o_p := p_init; o_t := t_init |} with
  | Some (out, _) => map (fun m => match m with Node _ [_; prop] => ident_name_sym prop | _ => None end) (ns_members out)
                     = [Some "strTrim"%string; Some "add"%string]
  | None => False
  end.
Proof. vm_compute. reflexivity. Qed.

(** A bare call is altered only for a method marked allowed-without-callee. *)
Theorem C05_bare_call_needs_flag : forall c callee call p e tag p',
  replace_without_callee c callee call p = (Some (e, tag), p') ->
  exists m, csi_get c tag = Some m /\ m_awc m = true /\ ident_sym callee = Some tag.
Proof. exact replace_without_callee_flag. Qed.
Print Assumptions C05_bare_call_needs_flag.

(** Defaults of omitted options ([to_config] model, checked against the real conversion by the check). *)
Theorem C05_defaults : forall rnd,
  let c := to_config rnd raw_default in
  c_chain c = false /\ c_comments c = false /\ c_literals c = true /\
  c_verbosity c = VInformation /\ c_methods c = [] /\
  String.length (c_prefix c) = 6 /\
  (forall ch, In ch (list_ascii_of_string (c_prefix c)) -> In ch (list_ascii_of_string gen_rnd_alphabet)).
Proof. exact to_config_defaults. Qed.
Print Assumptions C05_defaults.

(** "six random lowercase letters": the alphabet the prefix is drawn from (regenerated from util.rs on every run). *)
Theorem C05_prefix_alphabet_is_lowercase : gen_rnd_alphabet = "abcdefghijklmnopqrstuvwxyz"%string.
Proof. reflexivity. Qed.
Print Assumptions C05_prefix_alphabet_is_lowercase.

Theorem C05_dst_defaults_to_src : forall rnd r m,
  In m (c_methods (to_config rnd r)) ->
  exists rm, In rm (r_methods r) /\ m_src m = rm_src rm /\
             m_dst m = match rm_dst rm with Some d => d | None => rm_src rm end.
Proof. exact to_config_dst. Qed.
Print Assumptions C05_dst_defaults_to_src.
