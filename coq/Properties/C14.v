(** * C14 -- literal collection reports exactly the input's string literals, truly located. *)
From Coq Require Import String List NArith Bool.
From IastRw Require Import Ast Generated Literals P_Literals.
Import ListNotations.

(** The length window read from the source is the documented one: more than 10, at most 256 bytes. *)
Theorem C14_window_is_documented : forall n, gen_len_ok n = true <-> (10 < n <= 256)%N.
Proof. exact len_window. Qed.
Print Assumptions C14_window_is_documented.

Theorem C14_code_window_is_the_documented_one : forall n, gen_len_ok n = documented_len_ok n.
Proof. reflexivity. Qed.
Print Assumptions C14_code_window_is_the_documented_one.

Theorem C14_skipped_callees_are_documented : gen_REQUIRE = documented_require /\ gen_REGEXP = documented_regexp.
Proof. split; reflexivity. Qed.
Print Assumptions C14_skipped_callees_are_documented.

(** Every reported literal lies in the window, whatever the tree (induction over the tree). *)
Theorem C14_reported_literals_in_window : forall prog es e,
  collect true prog = Some es -> In e es -> (10 < N.of_nat (String.length (le_value e)) <= 256)%N.
Proof. exact collect_window. Qed.
Print Assumptions C14_reported_literals_in_window.

(** Each occurrence (value, position) is listed once -- also when instrumentation has cloned the
    literal into a hook's argument list (clones keep the span). *)
Theorem C14_each_occurrence_once : forall prog es,
  collect true prog = Some es -> NoDup (map key es).
Proof. exact collect_no_duplicates. Qed.
Print Assumptions C14_each_occurrence_once.

(** Nothing inside require('<literal>', ..) / new RegExp('<literal>', ..) is reported. *)
Theorem C14_skipped_calls_report_nothing : forall n, skipped n = true -> walk n = [].
Proof. exact skipped_reports_nothing. Qed.
Print Assumptions C14_skipped_calls_report_nothing.

Theorem C14_disabled_reports_nothing : forall prog, collect false prog = None.
Proof. exact collect_disabled. Qed.
Print Assumptions C14_disabled_reports_nothing.
