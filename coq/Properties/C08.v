(** * C08 -- every output is valid JavaScript of the same kind as the input.  Partial: what the
    repository controls is the shape of the tree handed to the printer; that the printed text parses
    back to that tree is swc's contract, exercised by the check on every case. *)
From Coq Require Import String List NArith Bool.
From IastRw Require Import Ast Generated Config Model P_OpVisit P_Kinds P_Program P_Hooks.
Import ListNotations.

(** The program stays a Script or a Module (same root tag, span included). *)
Theorem C08_same_program_kind : forall c fuel prog ast t,
  program_visit c fuel prog = Some (ast, t) -> tag_of ast = tag_of prog.
Proof. exact program_visit_tag. Qed.
Print Assumptions C08_same_program_kind.

(** The block visitor never changes the kind of the node it visits ... *)
Theorem C08_block_visitor_keeps_kinds : forall c fuel n t n' t',
  block_visit c fuel n t = Some (n', t') -> tag_of n' = tag_of n.
Proof. exact block_visit_tag. Qed.
Print Assumptions C08_block_visitor_keeps_kinds.

(** ... and the operation visitor only turns an instrumented operation into a call, a parenthesised
    sequence, an assignment or a member access: every other kind (all statements, declarations,
    patterns, literals, ...) is kept, at every depth, for every configuration. *)
Theorem C08_operation_visitor_keeps_neutral_kinds : forall c k, neutral k = true ->
  forall fuel root n s n' s', op_visit c fuel root n s = Some (n', s') -> is_kind k n' = is_kind k n.
Proof. exact op_visit_neutral. Qed.
Print Assumptions C08_operation_visitor_keeps_neutral_kinds.

(** An injected sequence is always wrapped in parentheses (it can stand wherever the operation stood). *)
Theorem C08_injected_sequence_is_parenthesised : forall e a m sp,
  kind_of (dd_paren e a m sp) = Some KCall \/ kind_of (dd_paren e a m sp) = Some KParen.
Proof. exact dd_paren_kind. Qed.
Print Assumptions C08_injected_sequence_is_parenthesised.
