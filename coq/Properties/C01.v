(** * C01 -- rewritten code behaves exactly like the input when hooks are pass-through.
    (Semantic theorems: see Sem.v / P_Sem.v; this file collects the statements.) *)
From Coq Require Import String List NArith Bool.
From IastRw Require Import Ast Generated Config Model HookSites Erase Order P_Local P_Hooks.
Import ListNotations.

(** The binary transformation keeps an identifier in place only under the IdentMode rule, and the
    arguments handed to the hook are the very operands: the syntactic facts the order checker
    ([Order.order_issues], run on the implementation's output) reads back. *)
Theorem C01_binary_operands_are_arguments : forall c lo hi l r p out p',
  binary_transform c (Node (K KBin lo hi) [nS "+"; l; r]) p = (Some out, p') ->
  exists l' r' a,
    out = dd_paren (Node (K KBin lo hi) [nS "+"; l'; r']) a (plus_name c) (lo, hi) /\
    a_args a = (if is_plus_bin l' then [] else [mk_arg l']) ++ (if is_plus_bin r' then [] else [mk_arg r']) /\
    (is_plus_bin l' = false -> is_lit l' = true \/ is_ident l' = true) /\
    (is_plus_bin r' = false -> is_lit r' = true \/ is_ident r' = true) /\
    (forall x, In x (p_idents p) -> In x (p_idents p')).
Proof. exact binary_transform_shape. Qed.
Print Assumptions C01_binary_operands_are_arguments.

(** ** Semantic statement (core language of Sem.v) *)
From IastRw Require Import Sem P_Sem.

(** For every world -- every way of answering [+], property reads and calls, and every way the user
    variables may change after each interaction -- every set of instrumented method names, and every
    source expression built from string literals, variables, property reads [o.k], [+], calls, method calls with no or one
    argument -- plain and optional ([o?.m()], [o?.m(a)]: a chain of one optional link, rewritten into a null guard) --,
    compound assignments [x += e], [o.k += e] and [o[k] += e] (a computed key: the object is read before the key is
    evaluated, finding 17m), template literals with one or two substitutions, and parentheses:
    the rewritten expression yields the same outcome (value or exception) and the same history of
    interactions as the source, from any counter value and any temporary store, and it writes only
    temporaries in the range it allocated.  ([rw] is the function the check ties to the code: SemTie.v.)
    Template literals are given the representative the property names: a substitution is coerced to a string
    after the later substitutions have been evaluated ([Sem.eval], [Tpl2]); the coercion of an object is an
    interaction with the world ([EvStr]) like any other. *)
Theorem C01_core_equivalence :
  forall (respond : hist -> event -> resp) (ustore : hist -> string -> value)
         (instr lit_ok awc : string -> bool) (e : expr),
    (forall f, awc f = false) ->     (* no method "allowed without callee": see C01_bare_call_refuted below *)
    src e ->
    forall c h t,                    (* the plus operator is configured: see C01_plus_off_refuted below *)
      let e' := fst (rw instr lit_ok awc true e c) in
      let c' := snd (rw instr lit_ok awc true e c) in
      c <= c' /\
      forall o h', (forall t2 : tenv, eval respond ustore e (h, t2) = (o, (h', t2))) ->
        exists t', eval respond ustore e' (h, t) = (o, (h', t')) /\ frame c c' t t'.
Proof. intros respond ustore instr lit_ok awc e NA Hs. exact (rw_correct respond ustore instr lit_ok awc NA (plus_on:=true) eq_refl e Hs). Qed.
Print Assumptions C01_core_equivalence.

(** The function that is tied to the code on every run is [rw_root] (the expression stands at the root of the operation
    visitor: parentheses, property reads and the object and key of a computed read are transparent there, and what
    stands under them is numbered from 0 again): it is equivalent to the source as well. *)
Theorem C01_root_equivalence :
  forall (respond : hist -> event -> resp) (ustore : hist -> string -> value)
         (instr lit_ok awc : string -> bool) (e : expr),
    (forall f, awc f = false) -> src e ->
    forall (h : hist) (t : tenv) o h',
      (forall t2 : tenv, eval respond ustore e (h, t2) = (o, (h', t2))) ->
      exists t', eval respond ustore (rw_root instr lit_ok awc true e) (h, t) = (o, (h', t')).
Proof. intros respond ustore instr lit_ok awc e NA Hs. exact (rw_root_correct respond ustore instr lit_ok awc NA (plus_on:=true) eq_refl e Hs). Qed.
Print Assumptions C01_root_equivalence.

(** The premise is always met: a source expression has an outcome and a history that do not depend on
    the temporaries (it neither reads nor writes them). *)
Theorem C01_source_ignores_temporaries :
  forall (respond : hist -> event -> resp) (ustore : hist -> string -> value) (e : expr),
    src e -> forall (h : hist) (t : tenv),
    exists o h', forall t2 : tenv, eval respond ustore e (h, t2) = (o, (h', t2)).
Proof. intros respond ustore e Hs. exact (src_tenv respond ustore e Hs). Qed.
Print Assumptions C01_source_ignores_temporaries.

(** Non-vacuity: both operands hoisted; the left identifier kept; a sum of literals left in place and
    not passed; a method call on an identifier with a literal argument. *)
Example C01_core_example :
  let all := fun _ : string => true in
  let none := fun _ : string => false in
  fst (rw all all none true (Add (CallE (Var "f") (Var "x")) (Var "y")) 0) =
    Hoist1 0 (CallE (Var "f") (Var "x")) (Hook (Add (Tmp 0) (Var "y")) [Tmp 0; Var "y"]) /\
  fst (rw all all none true (Add (Var "y") (CallE (Var "f") (Var "x"))) 0) =
    Hoist2 0 (Var "y") 1 (CallE (Var "f") (Var "x")) (Hook (Add (Tmp 0) (Tmp 1)) [Tmp 0; Tmp 1]) /\
  fst (rw all all none true (Add (Add (Lit (VStr "a")) (Lit (VStr "b"))) (Var "y")) 0) =
    Hoist1 0 (Var "y") (Hook (Add (Add (Lit (VStr "a")) (Lit (VStr "b"))) (Tmp 0)) [Tmp 0]) /\
  fst (rw all all none true (MCall1 (Var "s") "concat" (Lit (VStr "x"))) 0) =
    Hoist2 0 (Var "s") 1 (Get (Tmp 0) "concat")
           (Hook (CallT1 (Tmp 1) (Tmp 0) (Lit (VStr "x"))) [Tmp 1; Tmp 0; Lit (VStr "x")]) /\
  fst (rw all all none true (MCall0 (Lit (VStr "s")) "trim") 0) =
    Hoist1 0 (Get (Lit (VStr "s")) "trim") (Hook (CallT0 (Tmp 0) (Lit (VStr "s"))) [Tmp 0; Lit (VStr "s")]) /\
  (* o().p += s : the object is evaluated once *)
  fst (rw all all none true (AddAsgM (CallE (Var "o") (Var "z")) "p" (Var "s")) 0) =
    Hoist1 0 (CallE (Var "o") (Var "z"))
      (AsgM (Tmp 0) "p" (Hoist1 1 (Get (Tmp 0) "p") (Hook (Add (Tmp 1) (Var "s")) [Tmp 1; Var "s"]))) /\
  (* `a${x}b${f(y)}c` : identifiers are captured too; a template with a literal substitution is left alone *)
  fst (rw all all none true (Tpl2 "a" (Var "x") "b" (CallE (Var "f") (Var "y")) "c") 0) =
    Hoist2 0 (Var "x") 1 (CallE (Var "f") (Var "y")) (Hook (Tpl2 "a" (Tmp 0) "b" (Tmp 1) "c") [Tmp 0; Tmp 1]) /\
  fst (rw all all none true (Tpl2 "" (Lit (VStr "l")) "" (Add (Var "x") (Var "y")) "") 0) =
    Tpl2 "" (Lit (VStr "l")) "" (Add (Var "x") (Var "y")) "" /\
  (* g(a)?.trim() : the guard temporary first, then the call on it (captured once more, like any identifier receiver) *)
  fst (rw all all none true (OptMCall0 (CallE (Var "g") (Var "a")) "trim") 0) =
    Guard 0 (CallE (Var "g") (Var "a"))
      (Hoist2 1 (Tmp 0) 2 (Get (Tmp 1) "trim") (Hook (CallT0 (Tmp 2) (Tmp 1)) [Tmp 2; Tmp 1])) /\
  (* a chain on a literal receiver is left alone, its argument is still rewritten *)
  fst (rw all all none true (OptMCall1 (Lit (VStr "l")) "concat" (Add (Var "x") (Var "y"))) 0) =
    OptMCall1 (Lit (VStr "l")) "concat" (Hook (Add (Var "x") (Var "y")) [Var "x"; Var "y"]) /\
  (* a[f(x)] += s : the key is captured, and the identifier object before it; a[k] += s : both stay *)
  fst (rw all all none true (AddAsgC (Var "a") (CallE (Var "f") (Var "x")) (Var "s")) 0) =
    Hoist2 0 (Var "a") 1 (CallE (Var "f") (Var "x"))
      (AsgC (Tmp 0) (Tmp 1) (Hoist1 2 (GetC (Tmp 0) (Tmp 1)) (Hook (Add (Tmp 2) (Var "s")) [Tmp 2; Var "s"]))) /\
  fst (rw all all none true (AddAsgC (Var "a") (Var "k") (Var "s")) 0) =
    AsgC (Var "a") (Var "k") (Hoist1 0 (GetC (Var "a") (Var "k")) (Hook (Add (Tmp 0) (Var "s")) [Tmp 0; Var "s"])).
Proof. repeat split; reflexivity. Qed.

(** What the repair of finding 17m is about, in the core semantics: with the object left in place while the key is
    captured -- [(t0 = f(x), a[t0] = (t1 = a[t0], hook(t1 + s, t1, s)))], what the code did before 12287b8 -- a world in which
    calling [f] changes the variable [a] tells the rewritten expression from the source: the source reads and writes the
    object [a] held BEFORE the call (object 1), the old rewriting the one it holds after (object 2). *)
Example C01_object_after_key_refuted :
  let respond := fun (_ : hist) (_ : event) => RRet (VStr "r") in
  let ustore := fun (h : hist) (x : string) =>
                  if String.eqb x "a" then match h with [] => VObj 1 | _ => VObj 2 end else VStr x in
  let e := AddAsgC (Var "a") (CallE (Var "f") (Var "x")) (Var "s") in
  let old := Hoist1 0 (CallE (Var "f") (Var "x"))
               (AsgC (Var "a") (Tmp 0) (Hoist1 1 (GetC (Var "a") (Tmp 0)) (Hook (Add (Tmp 1) (Var "s")) [Tmp 1; Var "s"]))) in
  let t0 : tenv := fun _ => VUndef in
  let touched := fun ev => match ev with EvGetV o _ => Some o | EvSetV o _ _ => Some o | _ => None end in
  src e /\
  map touched (fst (snd (eval respond ustore e ([], t0)))) = [None; Some (VObj 1); Some (VObj 1)] /\
  map touched (fst (snd (eval respond ustore old ([], t0)))) = [None; Some (VObj 2); Some (VObj 2)] /\
  map touched (fst (snd (eval respond ustore (fst (rw (fun _ => false) (fun _ => false) (fun _ => false) true e 0)) ([], t0)))) =
    [None; Some (VObj 1); Some (VObj 1)].
Proof. cbv zeta. repeat split; vm_compute; try reflexivity; auto. Qed.

(** ** The optional call of a rewritten chain keeps its receiver (finding 17d, repaired in 50cf4f0).
    For a callee that is a member access -- plain [o.m?.(..)], optional [o?.m?.(..)] or parenthesised [(o.m)?.(..)] --
    the receiver is captured first, the access is made ON THE CAPTURED RECEIVER (optionally when the access was optional),
    the captured function is what the chain's guard tests, and the call is [t_fun.call(t_obj, args...)]. *)
From IastRw Require Import P_OptCall.
Theorem C01_optional_call_keeps_receiver : forall c lo hi cx callee args targs s r s' obj prop mopt,
  oc_callee_member callee = Some (obj, prop, mopt) ->
  oc_call_from_base c (Node (K KCall lo hi) [cx; callee; Node Lst args; targs]) true s = (Some r, s') ->
  let t_obj := temp_name c (p_ctr (oc_p s)) in
  let t_fun := temp_name c (N.succ (p_ctr (oc_p s))) in
  let access := if mopt then mk KOptChain DUMMY [nB true; mk_member DUMMY (mk_ident DUMMY t_obj) prop]
                else mk_member DUMMY (mk_ident DUMMY t_obj) prop in
  r = mk KCall DUMMY [cx; mk_member DUMMY (mk_ident DUMMY t_fun) (mk_ident_name DUMMY "call");
                      Node Lst (mk_arg (mk_ident DUMMY t_obj) :: args); targs] /\
  oc_assigns s' = (oc_assigns s ++
    [mk_assign DUMMY "=" (mk_binding_ident DUMMY t_obj) (assign_right obj IKExpr);
     mk_assign DUMMY "=" (mk_binding_ident DUMMY t_fun) (assign_right access IKExpr)])%list /\
  oc_new_ident s' = Some (mk_ident DUMMY t_fun).
Proof. exact optional_call_keeps_receiver. Qed.
Print Assumptions C01_optional_call_keeps_receiver.

(** ** The object of a compound-assignment target is read before its key (finding 17m, repaired in 12287b8).
    When the computed key of [o[k] += e] goes into a temporary, the object -- an identifier and [this] included, a
    literal excepted -- is captured first: the two assignments come in this order after whatever was there, and what
    is left of the target reads both from their temporaries.  When the key stays, an identifier object stays. *)
From IastRw Require Import P_Hoist.
Theorem C01_hoisted_key_captures_object : forall c lo hi obj prop span a p t' a' p',
  hoist_member c (Node (K KMember lo hi) [obj; prop]) span a p = Some (t', a', p') ->
  key_hoisted prop = true -> Ast.is_lit obj = false ->
  exists to tk klo khi key,
    prop = Node (K KComputed klo khi) [key] /\
    t' = Node (K KMember lo hi) [mk_ident DUMMY to; Node (K KComputed klo khi) [mk_ident DUMMY tk]] /\
    a_assigns a' = (a_assigns a ++ [mk_assign span "=" (mk_binding_ident DUMMY to) (assign_right obj IKExpr);
                                    mk_assign span "=" (mk_binding_ident DUMMY tk) (assign_right key IKExpr)])%list.
Proof. exact hoisted_key_captures_object. Qed.
Print Assumptions C01_hoisted_key_captures_object.

Theorem C01_plain_target_is_left_alone : forall c lo hi obj prop span a p,
  key_hoisted prop = false -> (is_ident obj || is_kind KThis obj) = true ->
  hoist_member c (Node (K KMember lo hi) [obj; prop]) span a p = Some (Node (K KMember lo hi) [obj; prop], a, p).
Proof. exact plain_target_is_left_alone. Qed.
Print Assumptions C01_plain_target_is_left_alone.

(** Both premises are met by [a[f()] += x] (the witness of the finding): the key is a call. *)
Example C01_hoisted_key_example :
  let a := mk_ident (1, 2)%N "a" in
  let key := mk KCall (3, 6)%N [ctxt0; mk_ident (3, 4)%N "f"; nL []; nNul] in
  key_hoisted (mk KComputed (2, 7)%N [key]) = true /\ Ast.is_lit a = false /\
  key_hoisted (mk KComputed (2, 5)%N [mk_ident (3, 4)%N "k"]) = false.
Proof. repeat split; reflexivity. Qed.

(** The three callee forms that are recognised, and the one that is not (open finding 21d). *)
Example C01_optional_call_callees :
  let m := mk_member (1, 4)%N (mk_ident (1, 2)%N "o") (mk_ident_name (3, 4)%N "m") in
  oc_callee_member m = Some (mk_ident (1, 2)%N "o", mk_ident_name (3, 4)%N "m", false) /\
  oc_callee_member (mk KOptChain (1, 5)%N [nB true; m]) = Some (mk_ident (1, 2)%N "o", mk_ident_name (3, 4)%N "m", true) /\
  oc_callee_member (mk_paren (0, 6)%N m) = Some (mk_ident (1, 2)%N "o", mk_ident_name (3, 4)%N "m", false) /\
  oc_callee_member (mk KOptChain (1, 7)%N [nB false; mk_member (1, 7)%N (mk KOptChain (1, 5)%N [nB true; m]) (mk_ident_name (6, 7)%N "n")]) = None.
Proof. repeat split; reflexivity. Qed.

(** ** The statement is FALSE for bare calls of a method "allowed without callee" (open finding 21e).
    The rewritten call reads the callee identifier after its argument has been evaluated.  Witness: a world in which
    every user variable changes value after the first interaction (the model's worlds may rewrite any user variable on
    any interaction; in JavaScript: the argument's evaluation reassigns the callee, [alone((alone = g, 1))], or calls
    something that does).  The source calls the value [f] had BEFORE the argument ran, the rewritten code the value it
    has after. *)
Example C01_bare_call_refuted :
  let respond := fun (_ : hist) (_ : event) => RRet (VStr "r") in
  let ustore := fun (h : hist) (_ : string) => match h with [] => VObj 1 | _ => VObj 2 end in
  let none := fun _ : string => false in
  let awc := fun f : string => String.eqb f "alone" in
  let e := CallE (Var "alone") (CallE (Var "g") (Lit (VStr "x"))) in
  let t0 : tenv := fun _ => VUndef in
  src e /\
  fst (rw none none awc true e 0) =
    Hoist1 0 (CallE (Var "g") (Lit (VStr "x")))
      (Hook (CallE (Var "alone") (Tmp 0)) [Var "alone"; Var "undefined"; Tmp 0]) /\
  (* the source: g is called, then the ORIGINAL function (object 1) with the result *)
  fst (snd (eval respond ustore e ([], t0))) =
    [EvCall (VObj 1) [VStr "x"]; EvCall (VObj 1) [VStr "r"]] /\
  (* the rewritten expression: g is called, then whatever the identifier holds by then (object 2) *)
  fst (snd (eval respond ustore (fst (rw none none awc true e 0)) ([], t0))) =
    [EvCall (VObj 1) [VStr "x"]; EvCall (VObj 2) [VStr "r"]].
Proof. cbv zeta. repeat split; vm_compute; try reflexivity; auto. Qed.

(** ** ... and FALSE when the plus operator is not configured (open finding 21b).
    A sum then stays where it is, also when it is a substitution of an instrumented template (or an argument of an
    instrumented method call): it is not captured and runs AFTER the operands that were.  Witness: [`p${g(a) + 'x'}q${h(b)}`]
    with the template operator on and the plus operator off; the source calls [g] then [h], the rewritten expression [h] then [g]. *)
Example C01_plus_off_refuted :
  let respond := fun (_ : hist) (ev : event) => match ev with EvCall f _ => RRet f | _ => RRet (VStr "r") end in
  let ustore := fun (_ : hist) (x : string) => if String.eqb x "g" then VObj 1 else if String.eqb x "h" then VObj 2 else VStr x in
  let none := fun _ : string => false in
  let e := Tpl2 "p" (Add (CallE (Var "g") (Var "a")) (Lit (VStr "x"))) "q" (CallE (Var "h") (Var "b")) "" in
  let t0 : tenv := fun _ => VUndef in
  src e /\
  fst (rw none none none false e 0) =
    Hoist1 0 (CallE (Var "h") (Var "b"))
      (Hook (Tpl2 "p" (Add (CallE (Var "g") (Var "a")) (Lit (VStr "x"))) "q" (Tmp 0) "") [Tmp 0]) /\
  map (fun ev => match ev with EvCall f _ => Some f | _ => None end)
      (fst (snd (eval respond ustore e ([], t0)))) = [Some (VObj 1); None; Some (VObj 2); None] /\
  map (fun ev => match ev with EvCall f _ => Some f | _ => None end)
      (fst (snd (eval respond ustore (fst (rw none none none false e 0)) ([], t0)))) = [Some (VObj 2); Some (VObj 1); None; None].
Proof. cbv zeta. repeat split; vm_compute; try reflexivity; auto. Qed.
