(** * C01 -- rewritten code behaves exactly like the input when hooks are pass-through.
    (Semantic theorems: see Sem.v / P_Sem.v; this file collects the statements.) *)
From Coq Require Import String List NArith Bool.
From IastRw Require Import Ast Generated Config Model HookSites Erase Order P_Local P_Hooks.
Import ListNotations.

(** The binary transformation keeps an identifier in place only under the IdentMode rule, and the
    arguments handed to the hook are the very operands: the syntactic facts the order checker
    ([Order.order_issues], run on the implementation's output) reads back. *)
Theorem C01_binary_operands_are_arguments : forall c lo hi l r p out p',
  binary_transform c (Node (K KBin lo hi) [nS "+"; l; r]) p = (Some out, p') ->
  exists l' r' a,
    out = dd_paren (Node (K KBin lo hi) [nS "+"; l'; r']) a (plus_name c) (lo, hi) /\
    a_args a = (if is_plus_bin l' then [] else [mk_arg l']) ++ (if is_plus_bin r' then [] else [mk_arg r']) /\
    (is_plus_bin l' = false -> is_lit l' = true \/ is_ident l' = true) /\
    (is_plus_bin r' = false -> is_lit r' = true \/ is_ident r' = true) /\
    (forall x, In x (p_idents p) -> In x (p_idents p')).
Proof. exact binary_transform_shape. Qed.
Print Assumptions C01_binary_operands_are_arguments.

(** ** Semantic statement (core language of Sem.v) *)
From IastRw Require Import Sem P_Sem.

(** For every world -- every way of answering [+] and calls, and every way the user variables may
    change after each interaction -- and every source expression built from literals, variables,
    [+] and calls: the rewritten expression yields the same outcome (value or exception) and the same
    history of interactions as the source, from any counter value and any temporary store, and it
    writes only temporaries in the range it allocated. *)
Theorem C01_core_equivalence :
  forall (respond : hist -> event -> resp) (ustore : hist -> string -> value) (e : expr),
    src e ->
    forall c h t,
      let e' := fst (rw e c) in
      let c' := snd (rw e c) in
      c <= c' /\
      forall o h', (forall t2 : tenv, eval respond ustore e (h, t2) = (o, (h', t2))) ->
        exists t', eval respond ustore e' (h, t) = (o, (h', t')) /\ frame c c' t t'.
Proof. intros respond ustore e Hs. exact (rw_correct respond ustore e Hs). Qed.
Print Assumptions C01_core_equivalence.

(** The premise is always met: a source expression has an outcome and a history that do not depend on
    the temporaries (it neither reads nor writes them). *)
Theorem C01_source_ignores_temporaries :
  forall (respond : hist -> event -> resp) (ustore : hist -> string -> value) (e : expr),
    src e -> forall (h : hist) (t : tenv),
    exists o h', forall t2 : tenv, eval respond ustore e (h, t2) = (o, (h', t2)).
Proof. intros respond ustore e Hs. exact (src_tenv respond ustore e Hs). Qed.
Print Assumptions C01_source_ignores_temporaries.

(** Non-vacuity: an expression where both operands are hoisted, and one where the left identifier is kept. *)
Example C01_core_example :
  fst (rw (Add (CallE (Var "f") (Var "x")) (Var "y")) 0) =
    Hoist1 0 (CallE (Var "f") (Var "x")) (Hook (Add (Tmp 0) (Var "y")) [Tmp 0; Var "y"]) /\
  fst (rw (Add (Var "y") (CallE (Var "f") (Var "x"))) 0) =
    Hoist2 0 (Var "y") 1 (CallE (Var "f") (Var "x")) (Hook (Add (Tmp 0) (Tmp 1)) [Tmp 0; Tmp 1]).
Proof. split; reflexivity. Qed.
