(** * C01 -- rewritten code behaves exactly like the input when hooks are pass-through.
    (Semantic theorems: see Sem.v / P_Sem.v; this file collects the statements.) *)
From Coq Require Import String List NArith Bool.
From IastRw Require Import Ast Generated Config Model HookSites Erase Order P_Local P_Hooks.
Import ListNotations.

(** The binary transformation keeps an identifier in place only under the IdentMode rule, and the
    arguments handed to the hook are the very operands: the syntactic facts the order checker
    ([Order.order_issues], run on the implementation's output) reads back. *)
Theorem C01_binary_operands_are_arguments : forall c lo hi l r p out p',
  binary_transform c (Node (K KBin lo hi) [nS "+"; l; r]) p = (Some out, p') ->
  exists l' r' a,
    out = dd_paren (Node (K KBin lo hi) [nS "+"; l'; r']) a (plus_name c) (lo, hi) /\
    a_args a = (if is_plus_bin l' then [] else [mk_arg l']) ++ (if is_plus_bin r' then [] else [mk_arg r']) /\
    (is_plus_bin l' = false -> is_lit l' = true \/ is_ident l' = true) /\
    (is_plus_bin r' = false -> is_lit r' = true \/ is_ident r' = true) /\
    (forall x, In x (p_idents p) -> In x (p_idents p')).
Proof. exact binary_transform_shape. Qed.
Print Assumptions C01_binary_operands_are_arguments.
